"""Canonical, JSON-serialisable deep dump of pycaption model objects, and the inverse
(build a CaptionSet from an abstract spec through the public API)."""


def size(s):
    if s is None:
        return None
    return [repr(float(s.value)), s.unit.value]


def point(p):
    if p is None:
        return None
    return [size(p.x), size(p.y)]


def stretch(s):
    if s is None:
        return None
    return [size(s.horizontal), size(s.vertical)]


def padding(p):
    if p is None:
        return None
    return [size(p.before), size(p.after), size(p.start), size(p.end)]


def alignment(a):
    if a is None:
        return None
    return [a.horizontal.value if a.horizontal is not None else None,
            a.vertical.value if a.vertical is not None else None]


def layout(l):
    if l is None:
        return None
    return {'origin': point(l.origin), 'extent': stretch(l.extent),
            'padding': padding(l.padding), 'alignment': alignment(l.alignment),
            'webvtt': l.webvtt_positioning}


def _plain(v):
    if isinstance(v, dict):
        return {str(k): _plain(x) for k, x in sorted(v.items(), key=lambda kv: str(kv[0]))}
    if isinstance(v, (list, tuple)):
        return [_plain(x) for x in v]
    if isinstance(v, (str, int, float, bool)) or v is None:
        return v
    return repr(v)


def node(n):
    from pycaption.base import CaptionNode
    if n.type_ == CaptionNode.TEXT:
        return ['t', n.content, layout(n.layout_info)]
    if n.type_ == CaptionNode.BREAK:
        return ['b', layout(n.layout_info)]
    if n.type_ == CaptionNode.STYLE:
        return ['s', bool(n.start), _plain(n.content), layout(n.layout_info)]
    return ['?', repr(n.type_)]


def caption(c):
    return {'start': c.start, 'end': c.end, 'nodes': [node(n) for n in c.nodes],
            'style': _plain(c.style), 'layout': layout(c.layout_info)}


def caption_set(cs):
    langs = []
    for lang in cs.get_languages():
        caps = cs.get_captions(lang)
        langs.append({'lang': lang,
                      'layout': layout(getattr(caps, 'layout_info', None)),
                      'captions': [caption(c) for c in caps]})
    return {'langs': langs, 'styles': _plain(dict(cs._styles)),
            'layout': layout(cs.layout_info)}


# ----------------------------------------------------------------- building from a spec

def mk_size(s):
    from pycaption.geometry import Size, UnitEnum
    if s is None:
        return None
    return Size(float(s[0]), UnitEnum(s[1]))


def mk_layout(spec):
    from pycaption.geometry import (Layout, Point, Stretch, Padding, Alignment,
                                    HorizontalAlignmentEnum, VerticalAlignmentEnum)
    if spec is None:
        return None
    # half of the layouts use ONE Size object wherever the same length occurs (as the DFXP reader does for a
    # one-value padding): value objects may be shared freely
    import hashlib
    shared = {} if hashlib.md5(repr(spec).encode('utf-8', 'surrogatepass')).digest()[1] % 2 == 0 else None
    _plain_mk_size = globals()['mk_size']

    def mk_size(s):                                   # local, sharing variant of the module-level mk_size
        if s is None or shared is None:
            return _plain_mk_size(s)
        key = (float(s[0]), s[1])
        if key not in shared:
            shared[key] = _plain_mk_size(s)
        else:
            SHARED_SIZES[0] += 1
        return shared[key]
    origin = extent = pad = align = None
    if spec.get('origin'):
        origin = Point(mk_size(spec['origin'][0]), mk_size(spec['origin'][1]))
    if spec.get('extent'):
        extent = Stretch(mk_size(spec['extent'][0]), mk_size(spec['extent'][1]))
    if spec.get('padding'):
        b, a, s, e = spec['padding']
        pad = Padding(mk_size(b), mk_size(a), mk_size(s), mk_size(e))
    if spec.get('alignment'):
        h, v = spec['alignment']
        align = Alignment(HorizontalAlignmentEnum(h) if h else None,
                          VerticalAlignmentEnum(v) if v else None)
    return Layout(origin=origin, extent=extent, padding=pad, alignment=align,
                  webvtt_positioning=spec.get('webvtt'))


def mk_node(n):
    from pycaption.base import CaptionNode
    if n[0] == 't':
        return CaptionNode.create_text(n[1], layout_info=mk_layout(n[2] if len(n) > 2 else None))
    if n[0] == 'b':
        return CaptionNode.create_break(layout_info=mk_layout(n[1] if len(n) > 1 else None))
    if n[0] == 's':
        return CaptionNode.create_style(n[1], dict(n[2]), layout_info=mk_layout(n[3] if len(n) > 3 else None))
    raise ValueError(n)


def mk_caption(c):
    from pycaption.base import Caption
    kw = {}
    if c.get('style') is not None:
        kw['style'] = dict(c['style'])
    return Caption(c['start'], c['end'], [mk_node(n) for n in c['nodes']],
                   layout_info=mk_layout(c.get('layout')), **kw)


BUILD_PROBLEMS = []       # filled by mk_caption_set, drained by vf.core after every case
BUILD_CHECKS = [0]
SHARED_SIZES = [0]       # Size objects used in more than one place of a layout


def _staged(spec):
    """One spec in four (a function of the spec alone, so that every process decides alike) is built the long
    way round: see mk_caption_set."""
    import hashlib
    if 'staged' in spec:
        return bool(spec['staged'])
    return hashlib.md5(repr(spec).encode('utf-8', 'surrogatepass')).digest()[0] % 4 == 0


def mk_caption_set(spec):
    """spec = {'langs': [{'lang':, 'layout':, 'captions': [...]}], 'styles': {}, 'layout':}
    Normally everything is handed to the constructors.  A 'staged' spec is built the way a program edits a
    set: captions are created one second late, looked at (repr / format_start) and then given their times;
    the set starts with its first language only and is looked at (get_languages / get_styles / is_empty)
    before the styles are added one by one with add_style and the other languages with set_captions.
    Both ways must give the same set."""
    from pycaption.base import CaptionSet, CaptionList
    if not _staged(spec) or not spec['langs']:
        d = {}
        for l in spec['langs']:
            d[l['lang']] = CaptionList([mk_caption(c) for c in l['captions']],
                                       layout_info=mk_layout(l.get('layout')))
        kw = {}
        if spec.get('styles') is not None:
            kw['styles'] = {k: dict(v) for k, v in spec['styles'].items()}
        return CaptionSet(d, layout_info=mk_layout(spec.get('layout')), **kw)

    def late(c):
        cap = mk_caption(dict(c, start=c['start'] + 1000000, end=c['end'] + 1000000))
        repr(cap)
        cap.format_start()
        cap.format_end(msec_separator=',')
        cap.start, cap.end = c['start'], c['end']
        return cap

    def mk_list(l):
        return CaptionList([late(c) for c in l['captions']], layout_info=mk_layout(l.get('layout')))

    first = spec['langs'][0]
    cs = CaptionSet({first['lang']: mk_list(first)}, layout_info=mk_layout(spec.get('layout')))
    cs.get_languages()
    list(cs.get_styles())
    cs.is_empty()
    if spec.get('styles') is not None:
        for k, v in spec['styles'].items():
            cs.add_style(k, dict(v))
            list(cs.get_styles())
    for l in spec['langs'][1:]:
        cs.set_captions(l['lang'], mk_list(l))
        cs.get_languages()
    # monitor: what the set shows of itself must not depend on how it was put together
    plain = mk_caption_set(dict(spec, staged=False))
    a, b = caption_set(plain), caption_set(cs)
    sa, sb = _plain(list(plain.get_styles())), _plain(list(cs.get_styles()))
    BUILD_CHECKS[0] += 1
    if a != b or sa != sb:
        BUILD_PROBLEMS.append({
            'what': 'the caption set of this case shows different languages / captions / styles when it is put '
                    'together with set_captions / add_style / assigned times than when the same parts are '
                    'handed to the constructors: whatever is written or computed from it is not what was put in',
            'languages': [[l['lang'], len(l['captions'])] for l in a['langs']],
            'languages_staged': [[l['lang'], len(l['captions'])] for l in b['langs']],
            'styles': [k for k, _ in sa], 'styles_staged': [k for k, _ in sb],
            'times_differ': [[c['start'], c['end']] for l in a['langs'] for c in l['captions']] !=
                            [[c['start'], c['end']] for l in b['langs'] for c in l['captions']]})
    return cs


def text_lines(nodes_dump):
    """Lines of visible text of a dumped node list (split at breaks)."""
    lines = ['']
    for n in nodes_dump:
        if n[0] == 't':
            lines[-1] += n[1]
        elif n[0] == 'b':
            lines.append('')
    return lines


def norm_line(s):
    """Trim and collapse whitespace runs (nbsp counts as whitespace)."""
    return ' '.join(s.split())   # str.split() treats U+00A0 as whitespace


def norm_lines(lines, drop_empty=True):
    out = [norm_line(x) for x in lines]
    if drop_empty:
        out = [x for x in out if x]
    return out
