"""Runtime monitors that need no edit of the code under test.

ReachMonitor   sys.monitoring PY_START + LINE events, enabled *locally* on the code
               objects of the anchored functions only (so the rest of the program runs at
               full speed).  Reports calls and distinct lines executed per function.
Failpoints     sys.monitoring LINE events on all code objects of pycaption; raises
               InjectedFault at the n-th distinct (file, line) reached (C09).
snapshot_guard wraps a bound method so that a canonical dump of chosen objects is taken
               before the call and compared after return *or raise*.
"""
import importlib
import sys

TOOL_REACH = 3
TOOL_FAIL = 4


def resolve(spec):
    """'pycaption.srt:SRTReader._srttomicro' -> function object (unwrapped)."""
    modname, _, path = spec.partition(':')
    obj = importlib.import_module(modname)
    parent = None
    for part in path.split('.'):
        parent = obj
        # look in __dict__ first so that staticmethod / classmethod are unwrapped by us
        if isinstance(parent, type) and part in parent.__dict__:
            obj = parent.__dict__[part]
        else:
            obj = getattr(parent, part)
    while True:
        if isinstance(obj, (staticmethod, classmethod)):
            obj = obj.__func__
        elif isinstance(obj, property):
            obj = obj.fget
        elif hasattr(obj, '__wrapped__'):
            obj = obj.__wrapped__
        else:
            break
    return obj


class ReachMonitor:
    def __init__(self, specs):
        self.specs = list(specs)
        self.codes = {}
        self.calls = {}
        self.lines = {}
        self.total = {}
        self.all_lines = {}
        self.missing = []
        for spec in self.specs:
            try:
                fn = resolve(spec)
                code = fn.__code__
            except Exception as e:  # anchored symbol vanished: reported as never reached
                self.missing.append(spec)
                self.calls[spec] = 0
                self.lines[spec] = set()
                self.total[spec] = 0
                continue
            # several anchors may resolve to one code object (methods inherited from a shared base class)
            self.codes.setdefault(code, []).append(spec)
            self.calls[spec] = 0
            self.lines[spec] = set()
            self.all_lines[spec] = sorted({ln for _, _, ln in code.co_lines() if ln is not None
                                           and ln != code.co_firstlineno})
            self.total[spec] = len(self.all_lines[spec])
        self.active = False

    def start(self):
        if not self.codes:
            return
        mon = sys.monitoring
        try:
            mon.use_tool_id(TOOL_REACH, 'verif-reach')
        except ValueError:
            mon.free_tool_id(TOOL_REACH)
            mon.use_tool_id(TOOL_REACH, 'verif-reach')
        ev = mon.events
        mon.register_callback(TOOL_REACH, ev.PY_START, self._on_start)
        mon.register_callback(TOOL_REACH, ev.LINE, self._on_line)
        for code in self.codes:
            mon.set_local_events(TOOL_REACH, code, ev.PY_START | ev.LINE)
        self.active = True

    def _on_start(self, code, offset):
        for spec in self.codes.get(code, ()):
            self.calls[spec] += 1

    def _on_line(self, code, line):
        for spec in self.codes.get(code, ()):
            s = self.lines[spec]
            if line not in s:
                s.add(line)
        # keep the event on: PY_START counting needs the code object instrumented anyway

    def stop(self):
        if not self.active:
            return
        mon = sys.monitoring
        for code in self.codes:
            mon.set_local_events(TOOL_REACH, code, 0)
        mon.register_callback(TOOL_REACH, mon.events.PY_START, None)
        mon.register_callback(TOOL_REACH, mon.events.LINE, None)
        mon.free_tool_id(TOOL_REACH)
        self.active = False

    def report(self):
        out = {}
        for spec in self.specs:
            code_first = None
            out[spec] = {'calls': self.calls[spec],
                         'lines_hit': sorted(self.lines[spec]),
                         'lines_total': self.total[spec],
                         'lines_all': self.all_lines.get(spec, [])}
        return out


class InjectedFault(Exception):
    """Raised by a failpoint; never raised by pycaption itself."""


class Failpoints:
    """Source-free failpoints on every line of the given package.

    trace(fn)       -> ordered list of distinct (filename, line) executed inside pycaption
    inject(fn, key) -> runs fn and raises InjectedFault the first time `key` is about to
                       execute; returns ('raised', exc) / ('returned', value)
    """

    def __init__(self, path_prefix):
        self.prefix = path_prefix
        self.mode = None
        self.seen = None
        self.order = None
        self.target = None
        self.fired = False

    def _acquire(self):
        mon = sys.monitoring
        try:
            mon.use_tool_id(TOOL_FAIL, 'verif-fail')
        except ValueError:
            mon.free_tool_id(TOOL_FAIL)
            mon.use_tool_id(TOOL_FAIL, 'verif-fail')
        mon.register_callback(TOOL_FAIL, mon.events.LINE, self._on_line)
        mon.set_events(TOOL_FAIL, mon.events.LINE)

    def _release(self):
        mon = sys.monitoring
        mon.set_events(TOOL_FAIL, 0)
        mon.register_callback(TOOL_FAIL, mon.events.LINE, None)
        mon.free_tool_id(TOOL_FAIL)

    def _on_line(self, code, line):
        fn = code.co_filename
        if not fn.startswith(self.prefix):
            return sys.monitoring.DISABLE
        key = (fn, line)
        if self.mode == 'trace':
            if key not in self.seen:
                self.seen.add(key)
                self.order.append(key)
            return sys.monitoring.DISABLE
        if self.mode == 'inject' and not self.fired and key == self.target:
            self.fired = True
            raise InjectedFault(f'{fn}:{line}')
        return None

    def trace(self, fn):
        self.mode, self.seen, self.order = 'trace', set(), []
        self._acquire()
        try:
            sys.monitoring.restart_events()
            try:
                fn()
            except Exception:
                pass
        finally:
            self._release()
        return list(self.order)

    def inject(self, fn, key):
        self.mode, self.target, self.fired = 'inject', tuple(key), False
        self._acquire()
        try:
            sys.monitoring.restart_events()
            try:
                value = fn()
            except InjectedFault as e:
                return 'injected', e
            except Exception as e:
                return ('raised-after-injection' if self.fired else 'raised'), e
            return ('returned-after-injection' if self.fired else 'returned'), value
        finally:
            self._release()
