"""Generators of abstract caption-set specs (see vf.dump.mk_caption_set)."""
from vf.gen import text as T

HOUR = 3600 * 1000000
LANGS = ['en-US', 'en', 'fr', 'de', 'es', 'pt', 'pt-BR', 'it', 'ja', 'zh-Hans', 'und']


def instant(rng, below_h=24, grid=1):
    """An instant in microseconds on a magnitude ladder with carry boundaries over-sampled."""
    r = rng.random()
    if r < 0.08:
        t = 0
    elif r < 0.25:
        t = rng.randrange(0, 1000000)
    elif r < 0.45:
        t = rng.randrange(0, 60 * 1000000)
    elif r < 0.65:
        t = rng.randrange(0, HOUR)
    else:
        t = rng.randrange(HOUR, below_h * HOUR)
    if rng.random() < 0.35:
        # snap next to a carry boundary
        unit = rng.choice([1000, 1000000, 60 * 1000000, HOUR])
        k = max(1, t // unit)
        t = k * unit + rng.choice([-1000, -1, 0, 1, 999, 1000, -999999, 999000, 999999])
    t = max(0, min(t, below_h * HOUR - 1))
    return (t // grid) * grid


def timeline(rng, n, below_h=24, grid=1, min_dur=None, sorted_=True, allow_equal_runs=True,
             touching=0.3):
    """n (start, end) pairs.  sorted_: starts non-decreasing and cues non-overlapping (except
    runs of identical timespans when allow_equal_runs)."""
    min_dur = grid if min_dur is None else min_dur
    if not sorted_:
        out = []
        for _ in range(n):
            a = instant(rng, below_h, grid)
            b = min(below_h * HOUR - grid, a + rng.choice([0, grid, 1000, 1500000, 4000000, 61 * 1000000]))
            b = max(a, (b // grid) * grid)
            out.append((a, b))
        return out
    pts = sorted(instant(rng, below_h, grid) for _ in range(2 * n))
    out = []
    t = None
    for i in range(n):
        a, b = pts[2 * i], pts[2 * i + 1]
        if t is not None and a < t:
            a = t
        if t is not None and rng.random() < touching:
            a = t
        if b < a + min_dur:
            b = a + min_dur
        if b >= below_h * HOUR:
            b = below_h * HOUR - grid
            a = min(a, b)
        out.append((a, b))
        t = b
    if allow_equal_runs and n > 1 and rng.random() < 0.3:
        i = rng.randrange(0, n - 1)
        k = rng.randrange(1, min(3, n - i - 1) + 1)
        for j in range(i + 1, i + 1 + k):
            out[j] = out[i]
        # keep the rest non-overlapping
        for j in range(i + 1 + k, n):
            if out[j][0] < out[i][1]:
                d = out[i][1] - out[j][0]
                out[j] = (out[j][0] + d, max(out[j][1] + d, out[j][0] + d))
        out = [(a, b) for a, b in out if b < below_h * HOUR] or [(0, grid)]
    return out


def text_nodes(rng, tag, nlines=None, empty_lines=0.0, **linekw):
    """[['t', line], ['b'], ...] with unique tags; optional empty lines (modelled as
    consecutive breaks or as empty / blank text nodes)."""
    n = nlines or rng.randrange(1, 5)
    nodes = []
    lines = []
    for i in range(n):
        if i:
            nodes.append(['b'])
            if rng.random() < empty_lines:
                # one to three empty lines in a row, in every node shape
                for _rep in range(rng.choice([1, 1, 2, 3])):
                    k = rng.random()
                    if k < 0.5:
                        nodes.append(['b'])
                    elif k < 0.75:
                        nodes += [['t', ''], ['b']]
                    else:
                        nodes += [['t', rng.choice([' ', '  ', '\u00a0'])], ['b']]
        s = T.line(rng, tag=f'{tag}.{i}', **linekw)
        if rng.random() < 0.1:
            s = ' ' + s
        if rng.random() < 0.1:
            s = s + ' '
        lines.append(s)
        nodes.append(['t', s])
    if empty_lines and rng.random() < empty_lines / 2:
        nodes.insert(0, ['b'])
    if empty_lines and rng.random() < empty_lines / 2:
        nodes.append(['b'])
    return nodes, lines


def simple_set(rng, case_tag, nlang=1, ncap=None, below_h=24, grid=1, sorted_=True,
               empty_lines=0.0, langs=None, **linekw):
    langs = langs or rng.sample(LANGS, nlang)
    spec = {'langs': [], 'styles': None, 'layout': None}
    for li, lang in enumerate(langs):
        n = ncap or rng.randrange(1, 7)
        tl = timeline(rng, n, below_h, grid, sorted_=sorted_)
        caps = []
        for ci, (a, b) in enumerate(tl):
            nodes, _ = text_nodes(rng, f'{case_tag}.{li}.{ci}', empty_lines=empty_lines, **linekw)
            caps.append({'start': a, 'end': b, 'nodes': nodes, 'style': None, 'layout': None})
        spec['langs'].append({'lang': lang, 'layout': None, 'captions': caps})
    return spec


# ------------------------------------------------------------------------------- rich sets (styles, layouts)

CLASS_NAMES = ['p', 'default', 'hl', 'speaker', 'bottom', 'r0', 'r1', 'r12', 'a&b', 'x"y', "q'z", '<z>',
               'c 1', 'Ünï', 'encc', 'span', 'sync', 'a<b', 'x+y=z']      # the last two: a lone '<' among plain characters
STYLE_VALUES = {
    'color': ['white', 'red', '#ff0000', 'rgb(1,2,3)', 'a&b', 'x"y', '<c>', 'c<d'],
    'font-family': ['monospace', 'Arial', '"Times New Roman", serif', 'A & B', "it's", '<ff>', 'Less<More', 'a+b-c=d'],
    'font-size': ['1c', '12px', '100%', '1&2'],
    'text-align': ['left', 'center', 'right', 'start', 'end'],
    'display-align': ['before', 'center', 'after'],
}


def rand_style(rng, classes=(), p_meta=0.3, allow_class=True):
    st = {}
    for key in rng.sample(sorted(STYLE_VALUES), rng.randrange(0, 4)):
        vals = STYLE_VALUES[key]
        st[key] = rng.choice(vals if rng.random() < p_meta + 0.3 else vals[:3])
    for flag in ('italics', 'bold', 'underline'):
        if rng.random() < 0.2:
            st[flag] = True
        elif rng.random() < 0.04:
            st[flag] = False          # explicitly switched off (e.g. by a more specific class)
    if allow_class and classes and rng.random() < 0.4:
        st['class'] = rng.choice(list(classes))
        if len(classes) >= 2 and rng.random() < 0.4:
            # several classes on one element, as the DFXP reader produces for style="a b"
            st['classes'] = rng.sample(list(classes), 2)
            st['class'] = ' '.join(st['classes'])
    return st


def rich_set(rng, tag, layout_fn=None, nlang=None, levels=('set', 'lang', 'caption', 'node', 'span'),
             weird_names=True, p_layout=0.35, abs_units=False, max_caps=4):
    """A caption set with styles, class references, balanced flat style spans and layouts at the
    requested levels.  layout_fn(rng) -> layout spec."""
    from vf.gen import geom
    layout_fn = layout_fn or (lambda r: geom.pct_layout(r))
    names = rng.sample(CLASS_NAMES if weird_names else CLASS_NAMES[:8], rng.randrange(0, 4))
    styles = {n: rand_style(rng, (), allow_class=False) for n in names}
    if names and rng.random() < 0.3:
        styles[names[0]]['class'] = rng.choice(names)
    nlang = nlang or rng.choice([1, 1, 2, 3])
    lang_pool = LANGS + (['en&"<', "fr'>", 'x y', 'x<y'] if weird_names else [])
    langs = rng.sample(lang_pool, nlang)

    def maybe(level):
        if level in levels and rng.random() < p_layout:
            return layout_fn(rng)
        return None

    spec = {'langs': [], 'styles': styles if (styles or rng.random() < 0.5) else None, 'layout': maybe('set')}
    for li, lang in enumerate(langs):
        n = rng.randrange(1, max_caps + 1)
        tl = timeline(rng, n, below_h=24, grid=1000, sorted_=True, allow_equal_runs=True)
        caps = []
        for ci, (a, b) in enumerate(tl):
            nodes, _ = text_nodes(rng, f'{tag}.{li}.{ci}', p_meta=0.2, p_uni=0.1)
            # node-level layouts on bare text nodes
            if 'node' in levels and rng.random() < p_layout / 2:
                lay = layout_fn(rng)
                for nd in nodes:
                    if rng.random() < 0.7:
                        nd.append(lay) if nd[0] == 't' else nd.extend([lay] if nd[0] == 'b' else [])
            # balanced flat spans
            k = rng.choice([0, 0, 1, 1, 2])
            pos = sorted(rng.randrange(0, len(nodes) + 1) for _ in range(2 * k))
            out = []
            spans = [(pos[2 * i], pos[2 * i + 1]) for i in range(k)]
            opens = {}
            closes = {}
            for s_, e_ in spans:
                content = rand_style(rng, names)
                lay = layout_fn(rng) if ('span' in levels and rng.random() < p_layout) else None
                opens.setdefault(s_, []).append((content, lay))
                closes.setdefault(e_, []).append((content, lay))
            pending = []
            for i in range(len(nodes) + 1):
                for content, lay in closes.get(i, []):
                    if (content, lay) in pending:
                        pending.remove((content, lay))
                        out.append(['s', False, content] + ([lay] if lay else []))
                for content, lay in opens.get(i, []):
                    # flat: close whatever is open first
                    for c2, l2 in list(pending):
                        pending.remove((c2, l2))
                        out.append(['s', False, c2] + ([l2] if l2 else []))
                    pending.append((content, lay))
                    out.append(['s', True, content] + ([lay] if lay else []))
                if i < len(nodes):
                    nd = nodes[i]
                    if pending and pending[-1][1] is not None and nd[0] in ('t', 'b') and len(nd) == (2 if nd[0] == 't' else 1):
                        nd = nd + [pending[-1][1]]      # nodes inside a positioned span carry its layout
                    out.append(nd)
            for c2, l2 in pending:
                out.append(['s', False, c2] + ([l2] if l2 else []))
            cstyle = rng.choice([None, {}, {'class': rng.choice(names)} if names else None,
                                 rand_style(rng, names)])
            caps.append({'start': a, 'end': b, 'nodes': out, 'style': cstyle, 'layout': maybe('caption')})
        spec['langs'].append({'lang': lang, 'layout': maybe('lang'), 'captions': caps})
    return spec


def nest_spans(rng, spec, p=0.5):
    """Put a second, properly nested span inside some of the spans of a set (rich_set makes flat spans only):
    <i>one <b>two</b> three</i>.  The inner span may carry flags the target format cannot express, or nothing."""
    n = 0
    for l in spec['langs']:
        for c in l['captions']:
            nodes = c['nodes']
            starts = [i for i, nd in enumerate(nodes) if nd[0] == 's' and nd[1]]
            if not starts or rng.random() > p:
                continue
            i = rng.choice(starts)
            j = next((k for k in range(i + 1, len(nodes)) if nodes[k][0] == 's'), None)
            if j is None or nodes[j][1] or j - i < 2:
                continue
            a = rng.randrange(i + 1, j)
            b = rng.randrange(a + 1, j + 1)
            inner = rng.choice([{'bold': True}, {'underline': True}, {}, {'italics': True}, {'color': 'red'},
                                {'bold': True, 'underline': True}])
            nodes[b:b] = [['s', False, dict(inner)]]
            nodes[a:a] = [['s', True, dict(inner)]]
            n += 1
    return n
