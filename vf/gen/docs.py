"""Independent document serialisers for the five text formats (used as *inputs* to the
readers in C01, C04, C10, C14).  Each generator returns a dict

    {'format', 'doc', 'reader_kwargs', 'read_kwargs',
     'expected': [{'lang', 'cues': [{'start', 'end' or [alternatives], 'lines'}]}],
     'features': [...]}

where expected times are computed in exact arithmetic from the fields that were spelled.
Text of a cue is a list of lines; a line is a list of segments produced by vf.gen.inline.
"""
from fractions import Fraction

from vf.gen import capsets, inline

HOUR = 3600 * 10 ** 6


def _split(us):
    h, r = divmod(us, HOUR)
    m, r = divmod(r, 60 * 10 ** 6)
    s, r = divmod(r, 10 ** 6)
    return h, m, s, r


def instants(rng, n, grid, below_h=1000, sorted_=False):
    return capsets.timeline(rng, n, below_h=below_h, grid=grid, sorted_=sorted_,
                            allow_equal_runs=False, min_dur=grid)


# ------------------------------------------------------------------------------- SRT

def spell_srt(rng, us, feats):
    h, m, s, r = _split(us)
    ms = r // 1000
    width = rng.choice([2, 2, 2, 3])
    hs = str(h).zfill(width)
    if h >= 24:
        feats.add('hour>=24')
    if h >= 1:
        feats.add('hour>=1')
    if ms == 0 and rng.random() < 0.5:
        feats.add('no-fraction')
        return f'{hs}:{m:02d}:{s:02d}'
    return f'{hs}:{m:02d}:{s:02d},{ms:03d}'


def gen_srt(rng, tag, text=None):
    feats = set()
    n = rng.randrange(1, 9)
    tl = instants(rng, n, 1000)
    nl = rng.choice(['\n', '\n', '\r\n'])
    if nl == '\r\n':
        feats.add('crlf')
    blocks = []
    cues = []
    for i, (a, b) in enumerate(tl):
        # no empty cues in SRT: a cue without payload is not well-formed SRT, and the suite pins
        # (test_extra_empty_line) that such a cue followed by two blank lines yields a caption
        empty = False
        lines = [] if empty else (text or inline.plain_lines)(rng, f'{tag}.{i}', 'srt')
        arrow = rng.choice([' --> ', ' --> ', ' -->  ', '  --> '])
        blk = f'{i + 1}{nl}{spell_srt(rng, a, feats)}{arrow}{spell_srt(rng, b, feats)}{nl}'
        for ln in lines:
            blk += inline.render(ln, 'srt', rng) + nl
        blocks.append(blk)
        if empty:
            feats.add('empty-cue')
        else:
            cues.append({'start': a, 'end': b, 'lines': [inline.display(ln, 'srt') for ln in lines], 'segs': lines})
    sep = nl * rng.choice([1, 1, 2, 3])
    if len(sep) > len(nl):
        feats.add('extra-blank-lines')
    doc = sep.join(blocks)
    if rng.random() < 0.5:
        doc += nl
    lang = rng.choice(['en-US', 'fr', 'de-CH'])
    return {'format': 'srt', 'doc': doc, 'reader_kwargs': {}, 'read_kwargs': {'lang': lang},
            'expected': [{'lang': lang, 'cues': cues}], 'features': sorted(feats)}


# ------------------------------------------------------------------------------- WebVTT

def spell_vtt(rng, us, feats):
    h, m, s, r = _split(us)
    ms = r // 1000
    if h >= 24:
        feats.add('hour>=24')
    if h >= 1:
        feats.add('hour>=1')
    if h == 0 and rng.random() < 0.6:
        feats.add('no-hours')
        return f'{m:02d}:{s:02d}.{ms:03d}'
    return f'{str(h).zfill(rng.choice([2, 2, 3]))}:{m:02d}:{s:02d}.{ms:03d}'


def gen_webvtt(rng, tag, text=None):
    feats = set()
    strict = rng.random() < 0.4
    n = rng.randrange(1, 9)
    tl = instants(rng, n, 1000, sorted_=strict or rng.random() < 0.5)
    if strict and n > 1 and rng.random() < 0.3:
        # cues that start together (or at zero) are in order: only a start *before* the previous one is an error
        k = rng.randrange(1, n)
        tl[k] = (tl[k - 1][0], max(tl[k][1], tl[k - 1][0] + 1000))
        if rng.random() < 0.3:
            tl[0] = (0, tl[0][1])
        feats.add('equal-starts-strict')
    shift = rng.choice([0, 0, 1, -1, 999, -999, 3600000, -3600000, 15])
    if shift < 0:
        lo = min(a for a, _ in tl)
        if lo + shift * 1000 < 0:
            shift = -(lo // 1000) if lo >= 1000 else 0
    if shift:
        feats.add('shift')
    if strict:
        feats.add('strict-timing')
    nl = rng.choice(['\n', '\n', '\r\n', '\r'])
    if nl == '\r':
        feats.add('lone-cr')
    doc = 'WEBVTT' + rng.choice(['', '', ' - some title', '\tX']) + nl
    if rng.random() < 0.2:
        doc += 'Kind: captions' + nl
    doc += nl
    cues = []
    for i, (a, b) in enumerate(tl):
        if rng.random() < 0.2:
            feats.add('note')
            doc += rng.choice(['NOTE a comment', 'NOTE' + nl + 'multi line' + nl + 'comment']) + nl + nl
        if rng.random() < 0.4:
            feats.add('cue-id')
            doc += rng.choice([f'id{i}', str(i + 1), 'cue - one', f'{tag}']) + nl
        empty = rng.random() < 0.08 and n > 1
        settings = rng.choice(['', '', '', ' align:left', ' position:10% line:20% size:50%',
                               ' line:0 position:20% size:60% align:start'])
        if settings:
            feats.add('settings')
        # the separators around the arrow (and before the settings) are one or more blanks or tabs
        sep1, sep2 = rng.choice([(' ', ' ')] * 5 + [('\t', '\t'), (' ', '\t'), ('\t', ' '), ('  ', ' '), (' \t', '\t ')])
        if sep1 + sep2 != '  ':
            feats.add('tab-or-wide-arrow-separator')
        if settings and rng.random() < 0.2:
            settings = '\t' + settings[1:]
        doc += f'{spell_vtt(rng, a, feats)}{sep1}-->{sep2}{spell_vtt(rng, b, feats)}{settings}{nl}'
        lines = [] if empty else (text or inline.plain_lines)(rng, f'{tag}.{i}', 'webvtt')
        for ln in lines:
            doc += inline.render(ln, 'webvtt', rng) + nl
        doc += nl
        if empty:
            feats.add('empty-cue')
        else:
            cues.append({'start': a + shift * 1000, 'end': b + shift * 1000,
                         'lines': [inline.display(ln, 'webvtt') for ln in lines], 'segs': lines,
                         'settings': settings.strip()})
    if rng.random() < 0.3:
        doc = doc.rstrip('\r\n')
    lang = rng.choice(['en-US', 'es'])
    return {'format': 'webvtt', 'doc': doc,
            'reader_kwargs': {'ignore_timing_errors': not strict, 'time_shift_milliseconds': shift},
            'read_kwargs': {'lang': lang},
            'expected': [{'lang': lang, 'cues': cues}], 'features': sorted(feats)}


# ------------------------------------------------------------------------------- DFXP

def spell_ttml(rng, target_us, feats, allow_frames=True):
    """Picks a legal TTML spelling of (about) target_us; returns (string, exact Fraction us)."""
    h, m, s, r = _split(target_us)
    kind = rng.choice(['clock', 'clock-frac', 'clock-frac', 'clock-frames', 'offset'])
    if kind == 'clock-frames' and not allow_frames:
        kind = 'clock-frac'
    if h >= 24:
        feats.add('hour>=24')
    hs = str(h).zfill(rng.choice([2, 2, 3]))
    if kind == 'clock':
        feats.add('clock-no-fraction')
        return f'{hs}:{m:02d}:{s:02d}', Fraction((h * 3600 + m * 60 + s) * 10 ** 6)
    if kind == 'clock-frac':
        nd = rng.choice([1, 2, 3, 3, 4, 5, 6, 7, 9])
        digits = f'{r:06d}'
        if nd <= 6:
            digits = digits[:nd]
        else:
            digits = digits + ''.join(rng.choice('0123456789') for _ in range(nd - 6))
        feats.add('fraction-%d' % nd)
        val = Fraction((h * 3600 + m * 60 + s) * 10 ** 6) + Fraction(int(digits), 10 ** nd) * 10 ** 6
        return f'{hs}:{m:02d}:{s:02d}.{digits}', val
    if kind == 'clock-frames':
        ff = min(29, r * 30 // 10 ** 6)
        feats.add('frames')
        val = Fraction((h * 3600 + m * 60 + s) * 10 ** 6) + Fraction(ff, 30) * 10 ** 6
        return f'{hs}:{m:02d}:{s:02d}:{ff:02d}', val
    metric = rng.choice(['h', 'm', 's', 'ms', 'f'])
    unit = {'h': HOUR, 'm': 60 * 10 ** 6, 's': 10 ** 6, 'ms': 1000, 'f': Fraction(10 ** 6, 30)}[metric]
    nd = rng.choice([0, 0, 1, 2, 3, 4])
    q = Fraction(target_us) / unit
    scaled = int(q * 10 ** nd)
    lit = str(scaled // 10 ** nd)
    if nd:
        lit += '.' + str(scaled % 10 ** nd).zfill(nd)
    feats.add('offset-' + metric)
    if nd:
        feats.add('offset-decimals')
    return lit + metric, Fraction(lit) * unit


def gen_dfxp(rng, tag, text=None, nlang=None):
    feats = set()
    nlang = nlang or rng.choice([1, 1, 2])
    langs = rng.sample(['en', 'fr', 'de', 'es-419', 'pt-BR'], nlang)
    doc = ('<?xml version="1.0" encoding="utf-8"?>\n'
           '<tt xml:lang="en" xmlns="http://www.w3.org/ns/ttml" '
           'xmlns:tts="http://www.w3.org/ns/ttml#styling">\n<head/>\n<body>\n')
    expected = []
    for li, lang in enumerate(langs):
        doc += f' <div xml:lang="{lang}">\n'
        n = rng.randrange(1, 7)
        tl = instants(rng, n, 1)
        cues = []
        for i, (a, b) in enumerate(tl):
            bs, bv = spell_ttml(rng, a, feats)
            use_dur = rng.random() < 0.3
            if use_dur:
                feats.add('dur')
                ds, dv = spell_ttml(rng, max(0, b - a), feats)
                end_alt = sorted({int(bv + dv), int(bv) + int(dv)})
                attr = f'begin="{bs}" dur="{ds}"'
            else:
                es, ev = spell_ttml(rng, b, feats)
                end_alt = [int(ev)]
                attr = f'begin="{bs}" end="{es}"'
                if rng.random() < 0.25:
                    # begin, end and a dur that says the same (only when the spelled values agree exactly)
                    ds, dv = spell_ttml(rng, max(0, b - a), set())
                    if bv + dv == ev:
                        attr += f' dur="{ds}"'
                        feats.add('end-and-dur')
            if rng.random() < 0.3:
                attr = ' '.join(reversed(attr.split(' ')))
            empty = rng.random() < 0.06 and n > 1
            lines = [] if empty else (text or inline.plain_lines)(rng, f'{tag}.{li}.{i}', 'dfxp')
            # a line break may sit alone inside a styled span, or have layout white space around it
            br = rng.choice(['<br/>'] * 8 + ['<span tts:fontStyle="italic"><br/></span>', '<span tts:color="red"><br/></span>',
                                             '<br />', '<span><br/></span>'])
            if br != '<br/>':
                feats.add('break-inside-a-span')
            body = br.join(inline.render(ln, 'dfxp', rng) for ln in lines)
            doc += f'  <p {attr}>{body}</p>\n'
            if empty:
                feats.add('empty-cue')
            else:
                cues.append({'start': int(bv), 'end': end_alt,
                             'lines': [inline.display(ln, 'dfxp') for ln in lines], 'segs': lines})
        doc += ' </div>\n'
        expected.append({'lang': lang, 'cues': cues})
    doc += '</body>\n</tt>\n'
    return {'format': 'dfxp', 'doc': doc, 'reader_kwargs': {}, 'read_kwargs': {},
            'expected': expected, 'features': sorted(feats)}


# ------------------------------------------------------------------------------- SAMI

SAMI_LANGS = [('ENCC', 'en-US'), ('FRCC', 'fr-FR'), ('DECC', 'de-DE'), ('ESCC', 'es-ES')]


def gen_sami(rng, tag, text=None, nlang=None, same_sync_twice=0.1, inline_lang=0.15):
    feats = set()
    nlang = nlang or rng.choice([1, 1, 2, 3])
    classes = rng.sample(SAMI_LANGS, nlang)
    if rng.random() < inline_lang:
        # one language is given by an inline lang= attribute (two-letter code) instead of a class rule
        code = rng.choice(['it', 'nl', 'sv'])
        classes[rng.randrange(len(classes))] = (None, code)
        feats.add('inline-lang-attribute')
    up = rng.random() < 0.6
    T = (lambda s: s.upper()) if up else (lambda s: s.lower())
    css = 'P { font-family: Arial; }\n.fmt { font-style: italic; }\n'
    for cls, lang in classes:
        if cls is not None:
            css += f'.{cls} {{ Name: {lang}; lang: {lang}; SAMI_Type: CC; }}\n'
    doc = (f'<{T("sami")}>\n<{T("head")}>\n<{T("title")}>t</{T("title")}>\n'
           f'<{T("style")} TYPE="text/css">\n<!--\n{css}-->\n</{T("style")}>\n</{T("head")}>\n<{T("body")}>\n')
    nsync = rng.randrange(1, 9)
    times = sorted({capsets.instant(rng, below_h=1000, grid=1000) // 1000 for _ in range(nsync)})
    events = {lang: [] for _, lang in classes}     # per language: (ms, lines or None)
    first_seen = []                                # languages in order of their first <P>
    close_p = rng.random() < 0.6
    for si, ms in enumerate(times):
        q = rng.choice(['', '"'])
        doc += f'<{T("sync")} {rng.choice(["Start", "start", "START"])}={q}{ms}{q}>'
        wrote = False
        for ci, (cls, lang) in enumerate(classes):
            r = rng.random()
            if r < 0.2 and wrote:
                continue
            k = 2 if rng.random() < same_sync_twice else 1
            for rep in range(k):
                if lang not in first_seen:
                    first_seen.append(lang)
                blank = rng.random() < 0.3
                if blank:
                    feats.add('blank-sync')
                    # a clearing paragraph: a no-break space, nothing at all, or blanks
                    body = rng.choice(['&nbsp;', '&nbsp;', '', ' ', '&nbsp; '])
                    if '&' not in body:
                        feats.add('blank-sync-without-nbsp')
                    events[lang].append((ms, None, None))
                else:
                    lines = (text or inline.plain_lines)(rng, f'{tag}.{ci}.{si}.{rep}', 'sami')
                    body = rng.choice(['<br>', '<br/>', '<BR>']).join(inline.render(ln, 'sami', rng) for ln in lines)
                    events[lang].append((ms, [inline.display(ln, 'sami') for ln in lines], lines))
                if k == 2:
                    feats.add('two-p-one-sync')
                pattr = f'{rng.choice(["Class", "class"])}={cls}' if cls is not None else \
                    f'{rng.choice(["lang", "Lang"])}={rng.choice(["", chr(34)])}{lang}'
                if pattr.count('"') == 1:
                    pattr += '"'
                if cls is None and rng.random() < 0.5:
                    # a formatting-only class (no lang: rule) in front of the inline lang attribute
                    pattr = 'class=fmt ' + pattr
                    feats.add('class-before-inline-lang')
                doc += f'<{T("p")} {pattr}>{body}' + (f'</{T("p")}>' if close_p else '')
                wrote = True
        doc += (f'</{T("sync")}>' if close_p or rng.random() < 0.5 else '') + '\n'
    doc += f'</{T("body")}>\n</{T("sami")}>\n'
    expected = []
    for lang in first_seen:
        evs = events[lang]
        cues = []
        for idx, (ms, lines, segs) in enumerate(evs):
            if lines is None:
                continue
            end = None
            for ms2, _, _s in evs[idx + 1:]:
                if ms2 != ms:
                    end = ms2 * 1000
                    break
            if end is None:
                end = (ms + 4000) * 1000
            cues.append({'start': ms * 1000, 'end': end, 'lines': lines, 'segs': segs})
        expected.append({'lang': lang, 'cues': cues})
    if nlang > 1:
        feats.add('multi-language')
    if any(c['start'] >= HOUR for e in expected for c in e['cues']):
        feats.add('hour>=1')
    return {'format': 'sami', 'doc': doc, 'reader_kwargs': {}, 'read_kwargs': {},
            'expected': expected, 'features': sorted(feats)}


# ------------------------------------------------------------------------------- MicroDVD

FPS = ['23.976', '24', '25', '29.97', '30', '50', '23.976024', '29.97003', '59.94006', '24.0005', '12.5']


def gen_microdvd(rng, tag, text=None):
    feats = set()
    fps = None
    doc = ''
    if rng.random() < 0.6:
        fps = rng.choice(FPS)
        doc += '{0}{0}' + fps + '\n'
        feats.add('fps-header')
    f = Fraction(fps or '25')
    n = rng.randrange(1, 9)
    cues = []
    frame = rng.choice([0, 1, 24, 25, 201, 1000, 90000, 2159999, 9000000])
    # frame numbers whose instant is a whole number of microseconds (multiples of the rate's numerator): there
    # an inexact rate lands just below the integer
    whole = f.numerator if f.denominator != 1 and rng.random() < 0.3 else None
    if whole:
        feats.add('frames-on-whole-microseconds')
    for i in range(n):
        a = frame + rng.choice([0, 1, 2, 7, 24, 25, 100, 1499])
        if whole:
            a = (a // whole + 1) * whole
        b = a + rng.choice([1, 1, 2, 24, 25, 75, 3000])
        if whole and rng.random() < 0.5:
            b = (b // whole + 1) * whole
        frame = b + rng.choice([0, 0, 1, 50])
        lines = (text or inline.plain_lines)(rng, f'{tag}.{i}', 'microdvd')
        doc += '{%d}{%d}' % (a, b) + '|'.join(inline.render(ln, 'microdvd', rng) for ln in lines) + '\n'
        if rng.random() < 0.1:
            doc += '\n'
        cues.append({'start': int(Fraction(a) * 10 ** 6 / f), 'end': int(Fraction(b) * 10 ** 6 / f),
                     'lines': [inline.display(ln, 'microdvd') for ln in lines], 'segs': lines})
        if a >= 90000:
            feats.add('hour>=1')
    lang = rng.choice(['en-US', 'und', 'it'])
    return {'format': 'microdvd', 'doc': doc, 'reader_kwargs': {}, 'read_kwargs': {'lang': lang},
            'expected': [{'lang': lang, 'cues': cues}], 'features': sorted(feats)}


GENERATORS = {'srt': gen_srt, 'webvtt': gen_webvtt, 'dfxp': gen_dfxp, 'sami': gen_sami,
              'microdvd': gen_microdvd}
READERS = {'srt': 'SRTReader', 'webvtt': 'WebVTTReader', 'dfxp': 'DFXPReader', 'sami': 'SAMIReader',
           'microdvd': 'MicroDVDReader'}


def validate(d):
    """The generated document as seen by the independent reference parser of its format must show
    the cues we expect (count and times; text too unless unknown WebVTT tags are involved).
    Returns None when consistent, else a reason string (the generator then retries)."""
    from vf import dump
    from vf.ref import parsers
    fmt = d['format']
    try:
        if fmt == 'srt':
            cues = parsers.parse_srt(d['doc'].replace('\r\n', '\n'), strict=False)
            got = [[(c['start'], c['end'], dump.norm_lines(c['lines'])) for c in cues]]
        elif fmt == 'webvtt':
            shift = d['reader_kwargs'].get('time_shift_milliseconds', 0) * 1000
            cues = [c for c in parsers.parse_webvtt(d['doc']) if c['lines']]
            got = [[(c['start'] + shift, c['end'] + shift, dump.norm_lines(c['lines'])) for c in cues]]
        elif fmt == 'microdvd':
            cues = parsers.parse_microdvd(d['doc'])
            got = [[(c['start'], c['end'], dump.norm_lines(c['lines'])) for c in cues]]
        elif fmt == 'dfxp':
            doc = parsers.parse_ttml(d['doc'])
            got = []
            for dv in doc['divs']:
                got.append([(None, None, dump.norm_lines(p['lines'])) for p in dv['ps']
                            if ''.join(p['lines']).strip()])
        else:
            doc = parsers.parse_sami(d['doc'])
            by = {}
            for s in doc['syncs']:
                for p in s['ps']:
                    if not p['blank']:
                        by.setdefault(p['lang'], []).append((s['start_ms'] * 1000, None, dump.norm_lines(p['lines'])))
            got = [by.get(e['lang'], []) for e in d['expected']]
    except parsers.RefSyntaxError as e:
        return 'reference parser rejects the generated document: %s' % e
    if len(got) != len(d['expected']):
        return 'language count'
    for g, e in zip(got, d['expected']):
        if len(g) != len(e['cues']):
            return 'cue count %d != %d' % (len(g), len(e['cues']))
        for (gs, ge, gl), c in zip(g, e['cues']):
            if gs is not None and gs != c['start']:
                return 'start'
            ends = c['end'] if isinstance(c['end'], list) else [c['end']]
            if ge is not None and ge not in ends:
                return 'end'
            has_unk = any(s[0] in ('unk', 'wrap') or (s[0] == 'o' and s[1] == 'v') for ln in c['segs'] for s in ln)
            if not has_unk and gl != dump.norm_lines(c['lines']):
                return 'text %r != %r' % (gl, dump.norm_lines(c['lines']))
    return None


def generate(fmt, rng, tag, ctx=None, **kw):
    """A validated document of the format (retries when the reference parser disagrees with the
    generator; such rejects are counted, they indicate a serialiser slip, not a pycaption defect)."""
    for _ in range(20):
        d = GENERATORS[fmt](rng, tag, **kw)
        if not any(e['cues'] for e in d['expected']):
            continue
        why = validate(d)
        if why is None:
            return d
        if ctx is not None:
            ctx.count('generator_rejects_' + fmt)
            ctx.note('last_generator_reject_' + fmt, why[:300])
    raise RuntimeError('could not generate a valid %s document: %s' % (fmt, why))


# ------------------------------------------------------------------------------- styled documents (C07, C10)

def gen_dfxp_styled(rng, tag):
    """A TTML document with a styling section (adversarial attribute values, a reference chain), regions with
    origin / extent / padding / alignment, region= on div / p / span and inline tts: attributes."""
    from xml.sax.saxutils import quoteattr
    fams = ['Arial', 'A & B', '"Times New Roman", serif', "it's", '<mono>', 'x > y']
    colors = ['white', '#ff0000', 'rgb(1,2,3)', 'a&b']
    ids = rng.sample(['s1', 's2', 'p', 'default', 'hl', 'bottom', 'r0', 'a.b', 'st-3'], 3)
    doc = ('<?xml version="1.0" encoding="utf-8"?>\n<tt xml:lang="en" xmlns="http://www.w3.org/ns/ttml" '
           'xmlns:tts="http://www.w3.org/ns/ttml#styling">\n<head>\n <styling>\n')
    for k, sid in enumerate(ids):
        attrs = ' tts:fontFamily=%s tts:color=%s' % (quoteattr(rng.choice(fams)), quoteattr(rng.choice(colors)))
        if rng.random() < 0.4:
            attrs += ' tts:fontStyle="italic"'
        if rng.random() < 0.3:
            attrs += ' tts:textAlign="%s"' % rng.choice(['left', 'center', 'right', 'start', 'end'])
        if k and rng.random() < 0.4:
            attrs += ' style="%s"' % ids[k - 1]
        doc += '  <style xml:id="%s"%s/>\n' % (sid, attrs)
    doc += ' </styling>\n <layout>\n'
    regs = ['rA', 'rB', 'rC'][:rng.randrange(1, 4)]
    for r in regs:
        attrs = ''
        if rng.random() < 0.8:
            attrs += ' tts:origin="%s%% %s%%"' % (rng.choice([0, 10, 12.5, 25]), rng.choice([5, 10, 50, 80]))
        if rng.random() < 0.6:
            attrs += ' tts:extent="%s%% %s%%"' % (rng.choice([30, 50, 80]), rng.choice([10, 15, 40]))
        if rng.random() < 0.4:
            attrs += ' tts:padding="%s"' % ' '.join('%d%%' % rng.choice([0, 1, 2, 5]) for _ in range(rng.randrange(1, 5)))
        if rng.random() < 0.5:
            attrs += ' tts:displayAlign="%s"' % rng.choice(['before', 'center', 'after'])
        if rng.random() < 0.5:
            attrs += ' tts:textAlign="%s"' % rng.choice(['left', 'center', 'right', 'start', 'end'])
        if rng.random() < 0.3:
            attrs += ' style="%s"' % rng.choice(ids)
        doc += '  <region xml:id="%s"%s/>\n' % (r, attrs)
    doc += ' </layout>\n</head>\n<body>\n'
    nlang = rng.choice([1, 1, 2])
    for li, lang in enumerate(rng.sample(['en', 'fr', 'de', 'en&x'], nlang)):
        divattr = ' region="%s"' % rng.choice(regs) if rng.random() < 0.4 else ''
        # a div that names no region while all its paragraphs name the same one (the div's layout is then
        # derived from its descendants)
        one_region = rng.choice(regs) if rng.random() < 0.3 else None
        if one_region:
            divattr = ''
        doc += ' <div xml:lang=%s%s>\n' % (quoteattr(lang), divattr)
        t = 0
        for k in range(rng.randrange(1, 5)):
            pattr = ''
            if one_region:
                pattr += ' region="%s"' % one_region
            elif rng.random() < 0.6:
                pattr += ' region="%s"' % rng.choice(regs)
            if rng.random() < 0.5:
                pattr += ' style="%s"' % rng.choice(ids)
            if rng.random() < 0.2:
                pattr += ' tts:textAlign="%s"' % rng.choice(['left', 'right', 'center'])
            body = ''
            for j in range(rng.randrange(1, 4)):
                if j:
                    body += '<br/>'
                w = inline.esc(f'{tag}.{li}.{k}.{j} ' + inline.T.word(rng, p_meta=0.3), 'dfxp', rng).replace(']]>', ']]&gt;')
                r = rng.random()
                if r < 0.3:
                    sattr = ' tts:fontFamily=%s' % quoteattr(rng.choice(fams))
                    if rng.random() < 0.5 and not one_region:
                        sattr += ' region="%s"' % rng.choice(regs)
                    if rng.random() < 0.3:
                        sattr += ' tts:textAlign="%s"' % rng.choice(['left', 'right', 'center'])
                    if rng.random() < 0.4:
                        sattr += ' tts:fontStyle="italic"'
                    body += '<span%s>%s</span>' % (sattr, w)
                elif r < 0.4:
                    body += '<span style="%s">%s</span>' % (rng.choice(ids), w)
                else:
                    body += w
            doc += '  <p begin="%dms" end="%dms"%s>%s</p>\n' % (t, t + 900, pattr, body)
            t += 1000
        doc += ' </div>\n'
    doc += '</body>\n</tt>\n'
    return {'format': 'dfxp', 'doc': doc, 'reader_kwargs': {}, 'read_kwargs': {}}


def gen_sami_styled(rng, tag):
    """A SAMI document whose stylesheet has font families with quotes and commas, colours, margins in
    several units, text-align, class names in mixed case, ID selectors, and inline style= / class= spans."""
    css = 'P { font-family: %s; font-size: 12pt; color: %s; text-align: %s; margin-left: %s; margin-top: %s; }\n' % (
        rng.choice(['Arial', '"Times New Roman", serif', 'sans-serif']), rng.choice(['white', '#ffeedd', 'red']),
        rng.choice(['left', 'center', 'right']), rng.choice(['5%', '29pt', '10px', '1em']),
        rng.choice(['2%', '12pt', '0']))
    classes = rng.sample(SAMI_LANGS, rng.choice([1, 2]))
    for cls, lang in classes:
        css += '.%s { Name: %s; lang: %s; SAMI_Type: CC; %s }\n' % (
            cls, lang, lang, rng.choice(['', 'margin-right: 3%;', 'text-align: right;']))
    extra = []
    if rng.random() < 0.5:
        # a second (third) class declaring the SAME language with other positioning
        for cls, lang in list(classes):
            for n in range(rng.choice([1, 2])):
                name = '%sX%d' % (cls, n)
                css += '.%s { Name: %s alt; lang: %s; text-align: %s; margin-left: %s; margin-top: %s; }\n' % (
                    name, lang, lang, rng.choice(['left', 'center', 'right']), rng.choice(['1%', '7%', '12px']),
                    rng.choice(['3%', '9%']))
                extra.append((name, lang))
    css += '#Small { font-size: 8pt; color: #00ff00; }\n.hl { font-style: italic; font-family: "A, B"; }\n'
    doc = '<SAMI>\n<HEAD>\n<STYLE TYPE="text/css">\n<!--\n%s-->\n</STYLE>\n</HEAD>\n<BODY>\n' % css
    t = 1000
    for k in range(rng.randrange(1, 6)):
        doc += '<SYNC Start=%d>' % t
        for ci, (cls, lang) in enumerate(classes):
            alts = [c for c, l in extra if l == lang]
            if alts and rng.random() < 0.4:
                cls = rng.choice(alts)
            w = inline.esc(f'{tag}.{ci}.{k} ' + inline.T.word(rng, p_meta=0.3), 'sami', rng)
            r = rng.random()
            if r < 0.3:
                w = '<SPAN Style="%s">%s</SPAN>' % (rng.choice(['font-style:italic;', 'color:#ff0000; font-weight:bold;',
                                                                  'text-align:right;', 'font-family:A&amp;B;',
                                                                  'text-decoration:underline;']), w)
            elif r < 0.45:
                w = '<SPAN class="hl">%s</SPAN>' % w
            elif r < 0.55:
                w = '<SPAN ID="Small">%s</SPAN>' % w
            pextra = rng.choice(['', '', ' Style="text-align:left;"', ' ID=Small'])
            doc += '<P Class=%s%s>%s' % (cls, pextra, w)
        doc += '\n'
        t += rng.choice([1000, 2500])
    doc += '</BODY>\n</SAMI>\n'
    return {'format': 'sami', 'doc': doc, 'reader_kwargs': {}, 'read_kwargs': {}}


# ------------------------------------------------------------------------------- reader reuse

def with_prior(case, rng, tag, ctx, p=0.15, **genkw):
    """In some cases the reader object has read another document of the format before (a reader that was used
    before must behave as a fresh one)."""
    if rng.random() < p:
        prior = generate(case['format'], rng, tag + 'P', ctx, **genkw)
        case['prior'] = {'doc': prior['doc'], 'read_kwargs': prior['read_kwargs']}
    return case


def reader_for(case, Reader, ctx):
    reader = Reader(**case['reader_kwargs'])
    if case.get('prior'):
        try:
            reader.read(case['prior']['doc'], **case['prior']['read_kwargs'])
            ctx.count('reads_by_a_reader_object_used_before')
        except Exception:
            ctx.count('reads_by_a_reader_object_whose_previous_read_was_refused')
    return reader
