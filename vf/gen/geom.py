"""Generators of abstract geometry specs (JSON-able) shared by C12, C13, C18."""

UNITS = ['px', 'em', '%', 'c', 'pt']
MAGS = [0.0, 0.5, 1.0, 10.0, 12.5, 33.33, 100.0]
HALIGN = ['left', 'center', 'right', 'start', 'end']
VALIGN = ['top', 'center', 'bottom']


def size_grid():
    return [[m, u] for u in UNITS for m in MAGS]


def rand_size(rng, units=UNITS, mags=None):
    mags = mags or MAGS
    if rng.random() < 0.25:
        v = round(rng.uniform(0, 200), rng.choice([0, 1, 2, 3]))
    else:
        v = rng.choice(mags)
    return [float(v), rng.choice(units)]


def rand_point(rng, **kw):
    return [rand_size(rng, **kw), rand_size(rng, **kw)]


def rand_padding(rng, allow_none=True, **kw):
    return [None if allow_none and rng.random() < 0.25 else rand_size(rng, **kw) for _ in range(4)]


def rand_alignment(rng):
    h = rng.choice(HALIGN + [None])
    v = rng.choice(VALIGN + [None])
    return [h, v]


def rand_layout(rng, p_none=0.35, **kw):
    spec = {}
    spec['origin'] = None if rng.random() < p_none else rand_point(rng, **kw)
    spec['extent'] = None if rng.random() < p_none else rand_point(rng, **kw)
    spec['padding'] = None if rng.random() < p_none else rand_padding(rng, **kw)
    spec['alignment'] = None if rng.random() < p_none else rand_alignment(rng)
    return spec


def pct_layout(rng, origin=True, small=True):
    """A percentage layout that fits on the screen (origin + extent inside the safe area when
    small=True) — used where fit_to_screen must be the identity."""
    vals = [0, 0.5, 0.25, 5, 10, 12.5, 20, 25, 33.33, 40, 50]       # 0.5 / 0.25: printed with a leading zero
    spec = {'origin': None, 'extent': None, 'padding': None, 'alignment': None}
    if origin:
        x, y = rng.choice(vals), rng.choice(vals)
        spec['origin'] = [[float(x), '%'], [float(y), '%']]
        if rng.random() < 0.8:
            w = rng.choice([v for v in vals if v > 0 and x + v <= 90])
            h = rng.choice([v for v in vals if v > 0 and y + v <= 95])
            spec['extent'] = [[float(w), '%'], [float(h), '%']]
    if rng.random() < 0.5:
        pv = [0, 0.5, 0.75, 1, 2.5, 5]
        spec['padding'] = [[float(rng.choice(pv)), '%'] for _ in range(4)]
    if rng.random() < 0.7:
        spec['alignment'] = [rng.choice(HALIGN + [None]), rng.choice(VALIGN + [None])]
        if spec['alignment'] == [None, None]:
            spec['alignment'] = None
    if not any(spec.values()):
        spec['alignment'] = ['center', 'bottom']
    return spec
