"""Abstract pop-on / roll-up / paint-on SCC programs, their generator and encoder."""
from vf.ref import cea608 as E

BASIC_POOL = 'abcdefghijklmnopqrstuvwxyzABCDEFGHIJKLMNOPQRSTUVWXYZ0123456789.,!?\'"-:;()$%&/+=<>@#'
BASIC_EXOTIC = 'áéíóúçÑñ÷[]'
SPECIAL_IDX = [0, 1, 2, 3, 4, 5, 6, 7, 8, 10, 11, 12, 13, 14, 15]     # 9 = transparent space: left out
EXT_POOL = [c for c in E.EXT1 + E.EXT2 if c not in '|¦']            # two cells whose order I could not confirm


def cells_of(items):
    n = 0
    for it in items:
        if it[0] in ('c', 'sp', 'mid', 'ext'):
            n += 1
        elif it[0] == 'bs':
            n -= 1
    return n


def gen_items(rng, maxcells, single, rich=True, maxitems=12):
    items = []
    cells = 0
    n = rng.randrange(1, maxitems + 1)
    last_ctl = None
    tries = 0
    while len(items) < n and tries < 60:
        tries += 1
        r = rng.random()
        if not rich or r < 0.6:
            k = rng.randrange(1, 5)
            for _ in range(k):
                if cells >= maxcells:
                    break
                pool = BASIC_EXOTIC if rng.random() < 0.05 else BASIC_POOL
                ch = ' ' if rng.random() < 0.15 and cells > 0 else rng.choice(pool)
                items.append(['c', ch])
                cells += 1
            last_ctl = None
            continue
        if cells >= maxcells:
            break
        if r < 0.7:
            it = ['sp', rng.choice(SPECIAL_IDX)]
        elif r < 0.8:
            it = ['ext', rng.choice(EXT_POOL)]
        elif r < 0.87:
            # backspace only right after a visible cell, with at least two cells on the row
            if cells < 2 or not items or items[-1][0] not in ('c', 'sp', 'ext') or items[-1] == ['c', ' ']:
                continue
            it = ['bs']
        else:
            it = ['mid', rng.choice([14, 14, 15, 0, 1, 2, 4, 6, 8, 10, 12])]
        if single and last_ctl == it:
            continue
        if it[0] == 'bs':
            cells -= 1
        else:
            cells += 1
        items.append(it)
        last_ctl = it
    if not any(i[0] in ('c', 'sp', 'ext') and i[1:] != [' '] for i in items):
        items.append(['c', rng.choice(BASIC_POOL)])
    # a row never ends with nothing visible after backspaces
    return items


def gen_row(rng, row, single, rich=True, maxlen=None):
    kind = rng.random()
    spec = {'row': row, 'col': 0, 'to': 0, 'pac_italic': False, 'pac_underline': rng.random() < 0.1,
            'pac_color': None}
    if rich and kind < 0.12:
        spec['pac_italic'] = True
    elif rich and kind < 0.2:
        spec['pac_color'] = rng.randrange(0, 7)
    else:
        spec['col'] = rng.choice([0, 0, 4, 8, 12, 16, 20, 24, 28])
        spec['to'] = rng.choice([0, 0, 1, 2, 3])
    room = 32 - spec['col'] - spec['to']
    spec['items'] = gen_items(rng, min(room, maxlen or room), single, rich)
    if any(i[0] in ('ext', 'bs') for i in spec['items']) and _peak_cells(spec['items']) >= room:
        # the cursor does not advance past column 32, so a backspace / extended character issued there
        # erases the wrong cell on a real decoder: keep such rows one column short of the edge
        kept = []
        for i in spec['items']:
            if i[0] in ('ext', 'bs'):
                continue
            if single and kept and kept[-1] == i and i[0] != 'c':
                continue
            kept.append(i)
        spec['items'] = kept
    # never more cells than the row has room for, and always something visible
    while _peak_cells(spec['items']) > room:
        spec['items'].pop()
    while spec['items'] and spec['items'][-1][0] == 'bs':
        spec['items'].pop()
    if not _visible_after(spec['items']):
        spec['items'] = [['c', rng.choice(BASIC_POOL)]]
    return spec


def _visible_after(items):
    """Whether a visible character remains on the row once the backspaces have been applied."""
    cells = []
    for it in items:
        if it[0] == 'bs':
            if cells:
                cells.pop()
        elif it[0] == 'mid' or (it[0] == 'c' and it[1] == ' '):
            cells.append(False)
        else:
            cells.append(True)
    return any(cells)


def _peak_cells(items):
    n = peak = 0
    for it in items:
        if it[0] == 'bs':
            n -= 1
        elif it[0] == 'ext':
            peak = max(peak, n + 1)       # the stand-in occupies a cell before it is replaced
            n += 1
        else:
            n += 1
        peak = max(peak, n)
    return peak


def gen_popon(rng, ncaps=None, rich=True):
    doubled = rng.random() < 0.5
    prog = {'doubled': doubled, 'drop': rng.random() < 0.5, 'captions': []}
    ncaps = ncaps or rng.randrange(1, 4)
    for _ in range(ncaps):
        nrows = rng.choice([1, 1, 2, 2, 3, 4])
        rows = sorted(rng.sample(range(1, 16), nrows))
        if nrows > 1 and rng.random() < 0.6:
            # make them adjacent (one caption of several lines)
            r0 = rng.randrange(1, 17 - nrows)
            rows = list(range(r0, r0 + nrows))
            if rng.random() < 0.3 and nrows > 2 and rows[-1] < 14:
                rows[-1] += 2
        prog['captions'].append({'rows': [gen_row(rng, r, not doubled, rich) for r in rows],
                                 'edm': rng.choice(['inline', 'separate', 'none']),
                                 'enm': True,   # a load always starts by erasing the non-displayed memory
                                 'gap': rng.choice([0, 1, 2, 3, 4, 5, 6, 7, 8, 10, 40, 100, 900])})
    return prog


def encode_row(spec, doubled, with_pac=True):
    ws = []

    def ctl(w):
        ws.append(w)
        if doubled:
            ws.append(w)

    if with_pac:
        p = E.pac(spec['row'], spec['col'], italic=spec['pac_italic'], underline=spec['pac_underline'],
                  color=spec['pac_color'])
        unit = [p] + ([E.tab(spec['to'])] if spec['to'] else [])
        ws.extend(unit)
        if doubled:
            ws.extend(unit)
    pending = ''

    def flush():
        nonlocal pending
        if pending:
            ws.extend(E.chars_to_words(pending))
            pending = ''

    for it in spec['items']:
        if it[0] == 'c':
            pending += it[1]
        elif it[0] == 'ext':
            pending += E.STANDIN[it[1]]
            flush()
            ctl(E.extended(it[1]))
        else:
            flush()
            if it[0] == 'sp':
                ctl(E.special(it[1]))
            elif it[0] == 'bs':
                ctl(E.ctrl('BS'))
            elif it[0] == 'mid':
                ctl(E.midrow(it[1]))
    flush()
    return ws


def encode_popon(prog, start_frame=30, min_gap=6):
    """-> (lines [(timecode, words)], schedule) where schedule lists per caption the absolute frame
    at which its EOC (first copy) is sent and the frames of every EDM."""
    d = prog['doubled']
    lines = []
    frame = start_frame
    sched = []
    edms = []
    for ci, cap in enumerate(prog['captions']):
        ws = []

        def ctl(name):
            ws.append(E.ctrl(name))
            if d:
                ws.append(E.ctrl(name))
        if cap['enm']:
            ctl('ENM')
        ctl('RCL')
        for r in cap['rows']:
            ws.extend(encode_row(r, d))
        frame += cap['gap']
        if cap['edm'] == 'inline':
            edms.append(frame + len(ws))
            ctl('EDM')
        eoc_at = frame + len(ws)
        ctl('EOC')
        lines.append((E.timecode(frame, prog['drop']), ws, frame))
        frame += len(ws)
        if cap['edm'] == 'separate':
            g = cap.get('edm_gap', 30)
            frame += g
            w2 = [E.ctrl('EDM')] * (2 if d else 1)
            edms.append(frame)
            lines.append((E.timecode(frame, prog['drop']), w2, frame))
            frame += len(w2)
        sched.append({'eoc_frame': eoc_at})
        frame += min_gap
    return lines, {'captions': sched, 'edm_frames': edms}


def scc_doc(lines):
    return E.scc_text([(tc, ws) for tc, ws, _ in lines])
