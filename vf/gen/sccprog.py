"""Abstract pop-on / roll-up / paint-on SCC programs, their generator and encoder."""
from vf.ref import cea608 as E

BASIC_POOL = 'abcdefghijklmnopqrstuvwxyzABCDEFGHIJKLMNOPQRSTUVWXYZ0123456789.,!?\'"-:;()$%&/+=<>@#'
BASIC_EXOTIC = 'áéíóúçÑñ÷[]'
SPECIAL_IDX = [0, 1, 2, 3, 4, 5, 6, 7, 8, 10, 11, 12, 13, 14, 15]     # 9 = transparent space: left out
EXT_POOL = [c for c in E.EXT1 + E.EXT2 if c not in '|¦']            # two cells whose order I could not confirm


def cells_of(items):
    n = 0
    for it in items:
        if it[0] in ('c', 'sp', 'mid', 'ext'):
            n += 1
        elif it[0] == 'bs':
            n -= 1
    return n


def gen_items(rng, maxcells, single, rich=True, maxitems=12):
    items = []
    cells = 0
    n = rng.randrange(1, maxitems + 1)
    last_ctl = None
    tries = 0
    while len(items) < n and tries < 60:
        tries += 1
        r = rng.random()
        if not rich or r < 0.6:
            k = rng.randrange(1, 5)
            for _ in range(k):
                if cells >= maxcells:
                    break
                pool = BASIC_EXOTIC if rng.random() < 0.05 else BASIC_POOL
                ch = ' ' if rng.random() < 0.15 and cells > 0 else rng.choice(pool)
                items.append(['c', ch])
                cells += 1
            last_ctl = None
            continue
        if cells >= maxcells:
            break
        if r < 0.7:
            it = ['sp', rng.choice(SPECIAL_IDX)]
        elif r < 0.8:
            it = ['ext', rng.choice(EXT_POOL)]
            k = rng.random()
            if k < 0.15:
                it.append(' ')           # any character may stand in for the extended one: a blank ...
            elif k < 0.3:
                # ... or a special character (not the one just sent: a repeated control code is ignored)
                prev = items[-1][1] if items and items[-1][0] == 'sp' else None
                it.append(rng.choice([i for i in SPECIAL_IDX if i != prev]))
        elif r < 0.87:
            # backspace only right after a visible cell, with at least two cells on the row
            if cells < 2 or not items or items[-1][0] not in ('c', 'sp', 'ext') or items[-1] == ['c', ' ']:
                continue
            it = ['bs']
        else:
            it = ['mid', rng.choice([14, 14, 15, 0, 1, 2, 4, 6, 8, 10, 12])]
        if single and last_ctl == it:
            continue
        if it[0] == 'bs':
            cells -= 1
        else:
            cells += 1
        items.append(it)
        last_ctl = it
    if not any(i[0] in ('c', 'sp', 'ext') and i[1:] != [' '] for i in items):
        items.append(['c', rng.choice(BASIC_POOL)])
    # a row never ends with nothing visible after backspaces
    return items


def gen_row(rng, row, single, rich=True, maxlen=None, italic_bias=0.0):
    kind = rng.random()
    if italic_bias and rng.random() < italic_bias:
        kind = 0.0
    spec = {'row': row, 'col': 0, 'to': 0, 'pac_italic': False, 'pac_underline': rng.random() < 0.1,
            'pac_color': None, 'lead_pad': rng.random() < 0.25}
    if rich and kind < 0.12:
        spec['pac_italic'] = True
        spec['to'] = rng.choice([0, 0, 1, 2, 3])
    elif rich and kind < 0.2:
        spec['pac_color'] = rng.randrange(0, 7)
        spec['to'] = rng.choice([0, 0, 1, 2, 3])
    else:
        spec['col'] = rng.choice([0, 0, 4, 8, 12, 16, 20, 24, 28])
        spec['to'] = rng.choice([0, 0, 1, 2, 3])
    room = 32 - spec['col'] - spec['to']
    if not maxlen and rng.random() < 0.05:
        # a row that fills its room to the last column (all 32 columns when it starts at column 0)
        if rng.random() < 0.7:
            spec.update(col=0, to=0, pac_italic=False, pac_color=None)
            room = 32
        text = plain_text(rng, room, '')
        spec['items'] = [['c', ch] for ch in text]
        return spec
    spec['items'] = gen_items(rng, min(room, maxlen or room), single, rich)
    if any(i[0] in ('ext', 'bs') for i in spec['items']) and _peak_cells(spec['items']) >= room:
        # the cursor does not advance past column 32, so a backspace / extended character issued there
        # erases the wrong cell on a real decoder: keep such rows one column short of the edge
        kept = []
        for i in spec['items']:
            if i[0] in ('ext', 'bs'):
                continue
            if single and kept and kept[-1] == i and i[0] != 'c':
                continue
            kept.append(i)
        spec['items'] = kept
    # never more cells than the row has room for, and always something visible
    while _peak_cells(spec['items']) > room:
        spec['items'].pop()
    while spec['items'] and spec['items'][-1][0] == 'bs':
        spec['items'].pop()
    if not _visible_after(spec['items']):
        spec['items'] = [['c', rng.choice(BASIC_POOL)]]
    return spec


def _visible_after(items):
    """Whether a visible character remains on the row once the backspaces have been applied."""
    cells = []
    for it in items:
        if it[0] == 'bs':
            if cells:
                cells.pop()
        elif it[0] == 'mid' or (it[0] == 'c' and it[1] == ' '):
            cells.append(False)
        else:
            cells.append(True)
    return any(cells)


def _peak_cells(items):
    n = peak = 0
    for it in items:
        if it[0] == 'bs':
            n -= 1
        elif it[0] == 'ext':
            peak = max(peak, n + 1)       # the stand-in occupies a cell before it is replaced
            n += 1
        else:
            n += 1
        peak = max(peak, n)
    return peak


def gen_popon(rng, ncaps=None, rich=True, italic_bias=0.0):
    doubled = rng.random() < 0.5
    prog = {'doubled': doubled, 'drop': rng.random() < 0.5, 'captions': []}
    ncaps = ncaps or rng.randrange(1, 4)
    for _ in range(ncaps):
        nrows = rng.choice([1, 1, 2, 2, 3, 4])
        rows = sorted(rng.sample(range(1, 16), nrows))
        if nrows > 1 and rng.random() < 0.6:
            # make them adjacent (one caption of several lines)
            r0 = rng.randrange(1, 17 - nrows)
            rows = list(range(r0, r0 + nrows))
            if rng.random() < 0.3 and nrows > 2 and rows[-1] < 14:
                rows[-1] += 2
        prog['captions'].append({'rows': [gen_row(rng, r, not doubled, rich, italic_bias=italic_bias) for r in rows],
                                 'edm': rng.choice(['inline', 'separate', 'none']),
                                 'enm': True,   # a load always starts by erasing the non-displayed memory
                                 'gap': rng.choice([0, 1, 2, 3, 4, 5, 6, 7, 8, 10, 40, 100, 900])})
    if ncaps > 1 and rng.random() < 0.25:
        # Resume Caption Loading is sent before the first load only: the decoder stays in pop-on mode
        for cap in prog['captions'][1:]:
            cap['rcl'] = False
    return prog


def encode_row(spec, doubled, with_pac=True):
    ws = []

    def ctl(w):
        ws.append(w)
        if doubled:
            ws.append(w)

    if with_pac:
        p = E.pac(spec['row'], spec['col'], italic=spec['pac_italic'], underline=spec['pac_underline'],
                  color=spec['pac_color'])
        unit = [p] + ([E.tab(spec['to'])] if spec['to'] else [])
        ws.extend(unit)
        if doubled:
            ws.extend(unit)
    pending = ''

    def flush():
        nonlocal pending
        if pending:
            if len(pending) % 2 and spec.get('lead_pad'):
                # the filler byte may also come first: 80xx instead of xx80 (a decoder ignores it anywhere)
                ws.append('80%02x' % E.parity(E.BASIC_CODE[pending[0]]))
                pending = pending[1:]
            ws.extend(E.chars_to_words(pending))
            pending = ''

    for it in spec['items']:
        if it[0] == 'c':
            pending += it[1]
        elif it[0] == 'ext':
            standin = it[2] if len(it) > 2 else None
            if standin is None:
                pending += E.STANDIN[it[1]]
            elif standin == ' ':
                pending += ' '
            else:
                flush()
                ctl(E.special(standin))
            flush()
            ctl(E.extended(it[1]))
        else:
            flush()
            if it[0] == 'sp':
                ctl(E.special(it[1]))
            elif it[0] == 'bs':
                ctl(E.ctrl('BS'))
            elif it[0] == 'mid':
                ctl(E.midrow(it[1]))
    flush()
    return ws


def encode_popon(prog, start_frame=30, min_gap=6):
    """-> (lines [(timecode, words)], schedule) where schedule lists per caption the absolute frame
    at which its EOC (first copy) is sent and the frames of every EDM."""
    d = prog['doubled']
    lines = []
    frame = start_frame
    sched = []
    edms = []
    for ci, cap in enumerate(prog['captions']):
        ws = []

        def ctl(name):
            ws.append(E.ctrl(name))
            if d:
                ws.append(E.ctrl(name))
        if cap['enm']:
            ctl('ENM')
        if cap.get('rcl', True):
            ctl('RCL')        # the decoder stays in pop-on mode: later loads need not repeat it
        for r in cap['rows']:
            ws.extend(encode_row(r, d))
        frame += cap['gap']
        if cap['edm'] == 'inline':
            edms.append(frame + len(ws))
            ctl('EDM')
        eoc_at = frame + len(ws)
        ctl('EOC')
        lines.append((E.timecode(frame, prog['drop']), ws, frame))
        frame += len(ws)
        if cap['edm'] == 'separate':
            g = cap.get('edm_gap', 30)
            frame += g
            w2 = [E.ctrl('EDM')] * (2 if d else 1)
            edms.append(frame)
            lines.append((E.timecode(frame, prog['drop']), w2, frame))
            frame += len(w2)
        sched.append({'eoc_frame': eoc_at})
        frame += min_gap
    return lines, {'captions': sched, 'edm_frames': edms}


def scc_doc(lines):
    """SCC text of the lines; a third of the documents use CRLF line ends (chosen from the content, so the
    same program always gives the same document)."""
    doc = E.scc_text([(tc, ws) for tc, ws, _ in lines])
    if lines and (len(lines) + lines[0][2] + len(lines[0][1])) % 3 == 0:
        doc = doc.replace('\n', '\r\n')
    return doc


# ------------------------------------------------------------------------------- roll-up / paint-on

PLAIN_POOL = 'abcdefghijklmnopqrstuvwxyzABCDEFGHIJKLMNOPQRSTUVWXYZ0123456789'


def plain_text(rng, n, tag=''):
    """n characters: letters/digits with single inner blanks, no blank at either end."""
    if n <= 0:
        return ''
    s = tag
    while len(s) < n:
        if s and s[-1] != ' ' and len(s) < n - 1 and rng.random() < 0.18:
            s += ' '
        else:
            s += rng.choice(PLAIN_POOL)
    return s[:n] if not s[:n].endswith(' ') else s[:n - 1] + 'x'


def text_items(rng, s, rich=False, single=True):
    items = []
    for k, ch in enumerate(s):
        # the row keeps its length: a special / extended character replaces a character
        if rich and k > 4 and ch != ' ' and rng.random() < 0.06:
            it = ['sp', rng.choice(SPECIAL_IDX)] if rng.random() < 0.5 else ['ext', rng.choice(EXT_POOL)]
            if not (single and items and items[-1] == it):
                items.append(it)
                continue
        items.append(['c', ch])
    return items


def items_display(items):
    cells = []
    for it in items:
        if it[0] == 'c':
            cells.append(it[1])
        elif it[0] == 'sp':
            cells.append(E.SPECIAL[it[1]])
        elif it[0] == 'ext':
            cells.append(it[1])
        elif it[0] == 'bs' and cells:
            cells.pop()
    return ''.join(cells)


def erase_edits(rng, items, single=True):
    """Rows with erased characters, keeping the displayed text's length: a letter typed twice with the second
    one taken back by Backspace, or an extended character whose stand-in equals the letter in front of it
    (both leave a run of equal letters in front of the erased cell)."""
    items = [list(i) for i in items]
    for _ in range(rng.choice([1, 1, 2])):
        cand = [k for k in range(1, len(items)) if items[k - 1][0] == 'c' and items[k - 1][1].isalpha()
                and items[k][0] == 'c' and (k + 1 >= len(items) or items[k + 1][0] == 'c')]
        if not cand:
            break
        k = rng.choice(cand)
        if rng.random() < 0.5:
            items[k:k] = [['c', items[k - 1][1]], ['bs']]
        else:
            ch = rng.choice([c for c in EXT_POOL if E.STANDIN[c].isalpha()])
            if single and k + 1 < len(items) and items[k + 1] == ['ext', ch]:
                continue
            items[k - 1] = ['c', E.STANDIN[ch]]
            if k >= 2 and items[k - 2][0] == 'c' and items[k - 2][1] != ' ' and rng.random() < 0.5:
                items[k - 2] = ['c', E.STANDIN[ch]]
            items[k] = ['ext', ch]
    return items


def gen_stream(rng, modes=None, rich=False, lengths=None, tagged=True, italics=False, trailing=False, edits=False):
    """A stream of roll-up / paint-on (and optionally a final pop-on) segments.
    -> {'doubled', 'drop', 'start_frame', 'segments': [{'mode': 'roll'|'paint'|'pop', ...}]}"""
    doubled = rng.random() < 0.5
    single = not doubled
    st = {'doubled': doubled, 'drop': rng.random() < 0.5,
          'start_frame': rng.choice([0, 0, 1, 29, 30, 45, 1800, 107990]), 'segments': []}
    modes = modes or rng.choice([['roll'], ['paint'], ['roll', 'paint'], ['paint', 'roll'], ['roll', 'pop'],
                                 ['paint', 'pop'], ['roll', 'roll']])
    counter = [0]

    def row_text(maxlen=32):
        counter[0] += 1
        n = rng.choice(lengths) if lengths else rng.randrange(3, maxlen + 1)
        if n == 0:
            # nothing at all, or (lengths mode) a row that is present but blank
            return ' ' * rng.choice([1, 2, 3]) if lengths and trailing and rng.random() < 0.4 else ''
        tag = ('R%d' % counter[0]) if tagged and n >= 4 else ''
        t = plain_text(rng, n, tag)
        if lengths and n >= 6 and rng.random() < 0.15:
            # one or two leading blanks are cells of the row like any other (the row keeps its length)
            k = rng.choice([1, 1, 2])
            t = ' ' * k + t[:n - k]
            if t.endswith(' '):
                t = t[:-1] + 'x'
        elif lengths and trailing and n >= 6 and rng.random() < 0.15:
            # one to three trailing blanks (the row keeps its number of cells)
            k = rng.choice([1, 2, 3])
            t = t[:n - k].rstrip(' ') + ' ' * k
            t = t + ' ' * (n - len(t))
        return t

    for mi, m in enumerate(modes):
        if m == 'roll':
            depth = rng.choice([2, 3, 4])
            base = rng.choice([15, 15, 14, 13, 12])
            nrows = rng.randrange(1, 9)
            seg = {'mode': 'roll', 'depth': depth, 'base': base, 'resend_ru': rng.random() < 0.4, 'rows': []}
            for _ in range(nrows):
                col = rng.choice([0, 0, 4, 8])
                t = row_text(32 - col if not lengths else 40)
                row = {'col': col, 'items': text_items(rng, t, rich, single), 'gap': rng.choice([0, 1, 5, 20, 60])}
                if edits and rng.random() < 0.5:
                    row['items'] = erase_edits(rng, row['items'], single)
                if not lengths and rng.random() < 0.15:
                    row['order'] = 'pac-cr'
                if not lengths and not italics and rng.random() < 0.1:
                    row['italic'] = True          # italics preamble (column 0)
                    row['col'] = 0
                if italics and rng.random() < 0.5:
                    if rng.random() < 0.5:
                        row['italic'] = True
                        row['col'] = 0
                    else:
                        # italics switched on by a mid-row code right after an indent PAC (any column)
                        row['items'] = [['mid', 14]] + row['items'][:30 - row['col']]
                seg['rows'].append(row)
            st['segments'].append(seg)
        elif m == 'paint':
            seg = {'mode': 'paint', 'lines': []}
            for _ in range(rng.randrange(1, 6)):
                k = rng.choice([1, 1, 2, 3])
                r0 = rng.randrange(1, 16 - k + 1)
                rows = list(range(r0, r0 + k))
                if lengths and k > 1 and rng.random() < 0.5:
                    rows = sorted(rng.sample(range(1, 16), k))
                line = {'rows': [], 'gap': rng.choice([0, 1, 5, 20, 60]), 'rdc': True}
                for r in rows:
                    col = rng.choice([0, 0, 4])
                    t = row_text(32 - col if not lengths else 40)
                    line['rows'].append({'row': r, 'col': col, 'items': text_items(rng, t, rich, single)})
                    # rows of a block may be addressed with a tab offset or by an italics preamble
                    k2 = rng.random()
                    if k2 < 0.2:
                        line['rows'][-1]['to'] = rng.choice([1, 2, 3])
                        if not lengths:
                            line['rows'][-1]['items'] = line['rows'][-1]['items'][:32 - col - 3]
                    elif k2 < 0.35:
                        line['rows'][-1]['italic'] = True
                    if edits and rng.random() < 0.5:
                        line['rows'][-1]['items'] = erase_edits(rng, line['rows'][-1]['items'], single)
                seg['lines'].append(line)
            st['segments'].append(seg)
        else:
            seg = {'mode': 'pop', 'captions': []}
            ncap = rng.randrange(1, 3)
            for ci in range(ncap):
                k = rng.choice([1, 2, 3])
                rows = sorted(rng.sample(range(1, 16), k)) if rng.random() < 0.6 else list(range(5, 5 + k))
                cap = {'rows': [], 'gap': rng.choice([10, 40]), 'edm': rng.choice(['inline', 'none'])}
                if ci == ncap - 1 and mi < len(modes) - 1 and rng.random() < 0.5:
                    cap['abandoned'] = True        # loaded but never shown: the next mode change discards it
                for r in rows:
                    col = rng.choice([0, 0, 4])
                    t = row_text(32 - col if not lengths else 40)
                    cap['rows'].append({'row': r, 'col': col, 'items': text_items(rng, t, rich, single)})
                    if edits and rng.random() < 0.5:
                        cap['rows'][-1]['items'] = erase_edits(rng, cap['rows'][-1]['items'], single)
                seg['captions'].append(cap)
            st['segments'].append(seg)
    return st


class _Rows(list):
    """The display text of every transmitted row, in order; .modes[i] is (caption mode, segment index) of row i."""

    def __init__(self):
        super().__init__()
        self.modes = []


def encode_stream(st):
    """-> lines [(timecode, words, frame)], rows [display text of every transmitted row in order]."""
    d = st['doubled']
    lines = []
    rows_sent = _Rows()
    frame = st['start_frame']

    def ctl(ws, name):
        ws.append(E.ctrl(name))
        if d:
            ws.append(E.ctrl(name))

    def emit(ws, gap):
        nonlocal frame
        frame += gap
        lines.append((E.timecode(frame, st['drop']), ws, frame))
        frame += len(ws) + 1

    def rowspec(row, r):
        return {'row': row, 'col': 0 if r.get('italic') else r['col'], 'to': r.get('to', 0), 'pac_italic': bool(r.get('italic')),
                'pac_underline': False, 'pac_color': None, 'items': r['items'], 'lead_pad': r.get('lead_pad', False)}

    for si, seg in enumerate(st['segments']):
        if seg['mode'] == 'roll':
            ru = {2: 'RU2', 3: 'RU3', 4: 'RU4'}[seg['depth']]
            for i, r in enumerate(seg['rows']):
                ws = []
                rw = encode_row(rowspec(seg['base'], r), d)
                npac = 2 if d else 1
                if r.get('order') == 'pac-cr' and (i == 0 or seg['resend_ru']):
                    # the same codes in another legal order: the preamble before the carriage return
                    ctl(ws, ru)
                    ws.extend(rw[:npac])
                    ctl(ws, 'CR')
                    ws.extend(rw[npac:])
                else:
                    if i == 0 or seg['resend_ru']:
                        ctl(ws, ru)
                    ctl(ws, 'CR')
                    ws.extend(rw)
                rows_sent.append(items_display(r['items']))
                rows_sent.modes.append(('roll', si))
                emit(ws, r['gap'])
        elif seg['mode'] == 'paint':
            for ln in seg['lines']:
                ws = []
                ctl(ws, 'RDC')
                for r in ln['rows']:
                    ws.extend(encode_row(rowspec(r['row'], r), d))
                    rows_sent.append(items_display(r['items']))
                    rows_sent.modes.append(('paint', si))
                emit(ws, ln['gap'])
        else:
            for cap in seg['captions']:
                ws = []
                ctl(ws, 'ENM')
                ctl(ws, 'RCL')
                for r in cap['rows']:
                    ws.extend(encode_row(rowspec(r['row'], r), d))
                    if not cap.get('abandoned'):
                        rows_sent.append(items_display(r['items']))
                        rows_sent.modes.append(('pop', si))
                if not cap.get('abandoned'):
                    if cap['edm'] == 'inline':
                        ctl(ws, 'EDM')
                    ctl(ws, 'EOC')
                emit(ws, cap['gap'])
    return lines, rows_sent


# ------------------------------------------------------------------------------- reader reuse

def prior_doc(rng, drop=None):
    """What a reader object may have read before the document a case is about (a reader that was used before
    must behave as a fresh one): a small pop-on program, a roll-up / paint-on stream, or a stream with an
    over-long row (that read is refused).  `drop` chooses the timecode separator."""
    k = rng.random()
    if k < 0.5:
        prog = gen_popon(rng, ncaps=rng.randrange(1, 3))
        if drop is not None:
            prog['drop'] = drop
        lines, _ = encode_popon(prog)
    else:
        st = gen_stream(rng, modes=rng.choice([['roll'], ['paint'], ['pop']]),
                        lengths=[5, 20, 31, 40] if k < 0.8 else None)
        if drop is not None:
            st['drop'] = drop
        lines, _ = encode_stream(st)
    return scc_doc(lines)


def reader_for(case, ctx):
    """A fresh SCCReader, or - when the case has a 'prior_doc' - one that has read that document before."""
    from pycaption import SCCReader
    reader = SCCReader()
    if case.get('prior_doc'):
        try:
            reader.read(case['prior_doc'])
            ctx.count('reads_by_a_reader_object_used_before')
        except Exception:
            ctx.count('reads_by_a_reader_object_whose_previous_read_was_refused')
    return reader
