"""Abstract inline model of cue text and its per-format rendering.

A line is a list of segments:
    ['t', text]                 literal text (any characters)
    ['o', kind, arg] / ['c', kind]   inline markup open / close
         kinds: i b u (all markup formats), c v ruby rt lang (WebVTT), color (DFXP/SAMI span)
    ['ts', 'mm:ss.ttt']         WebVTT timestamp tag
    ['unk', '<x>']              WebVTT: a tag-looking string that is NOT a known tag (stays literal)
    ['wrap']                    the source text is wrapped here: newline + indentation (DFXP/SAMI)
display(line, fmt) is what a conformant consumer shows for the line.
"""
from vf.gen import text as T

UNKNOWN_FAR = ['<x>', '</x>', '<foo>', '<q1>', '<zz y>', '<dfn>', '</foo>', '<em>']
UNKNOWN_NEAR = ['<cat>', '</cat>', '<big>', '<island>', '<uv>', '<vv>', '<bold>', '<italic>',
                '<under>', '<center>', '<rubyx>', '<rtl>', '<language>', '<i2>', '<b1>']


def plain_lines(rng, tag, fmt, nlines=None):
    """Tagged lines of harmless words (C01, C14: the text only identifies the cue)."""
    n = nlines or rng.randrange(1, 4)
    excl = '|' if fmt == 'microdvd' else ''
    return [[['t', T.line(rng, tag=f'{tag}.{k}', meta=[], p_meta=0, p_uni=0.1, glue=0, exclude=excl)]]
            for k in range(n)]


def rich_lines(rng, tag, fmt, nlines=None):
    """Lines with entities, markup-looking text, inline tags and wraps (C04)."""
    n = nlines or rng.randrange(1, 4)
    excl = {'microdvd': '|', 'srt': '', 'webvtt': '', 'dfxp': '', 'sami': ''}[fmt]
    lines = []
    for k in range(n):
        segs = [['t', f'{tag}.{k} ']]
        for _ in range(rng.randrange(1, 5)):
            r = rng.random()
            if fmt in ('srt', 'microdvd'):
                w = T.word(rng, p_meta=0.35, exclude=excl)
                if fmt == 'srt' and '-->' in w:
                    w = w.replace('-->', '->')
                segs.append(['t', w + ' '])
                continue
            if r < 0.45:
                segs.append(['t', T.word(rng, p_meta=0.4) + rng.choice([' ', ' ', ''])])
            elif r < 0.65:
                kind = rng.choice(['i', 'b', 'u'])
                segs.append(['o', kind, None])
                segs.append(['t', T.word(rng, p_meta=0.2) + rng.choice(['', ' '])])
                if rng.random() < 0.3:
                    segs.append(['t', T.word(rng, p_meta=0.2)])
                segs.append(['c', kind])
                segs.append(['t', ' '])
            elif r < 0.8 and fmt == 'webvtt':
                k2 = rng.choice(['c', 'v', 'ruby', 'lang', 'ts', 'unk-far', 'unk-near', 'unk-near'])
                if k2 == 'ts':
                    segs.append(['ts', rng.choice(['00:01.000', '00:00:02.500', '100:00:00.000'])])
                elif k2 == 'unk-far':
                    segs.append(['unk', rng.choice(UNKNOWN_FAR)])
                elif k2 == 'unk-near':
                    segs.append(['unk', rng.choice(UNKNOWN_NEAR)])
                elif k2 == 'v':
                    segs.append(['o', 'v', rng.choice(['Bob', 'Mary Ann', 'Dr. X'])])
                    segs.append(['t', T.word(rng, p_meta=0.1)])
                    segs.append(['c', 'v'])
                elif k2 == 'ruby':
                    segs += [['o', 'ruby', None], ['t', 'kanji'], ['o', 'rt', None], ['t', 'kana'],
                             ['c', 'rt'], ['c', 'ruby']]
                else:
                    segs.append(['o', k2, rng.choice(['yellow', 'en-GB', 'a.b'])])
                    segs.append(['t', T.word(rng, p_meta=0.1)])
                    segs.append(['c', k2])
                segs.append(['t', ' '])
            elif r < 0.8 and fmt in ('dfxp', 'sami'):
                segs.append(['o', 'color', rng.choice(['red', '#00ff00'])])
                segs.append(['t', T.word(rng, p_meta=0.2)])
                segs.append(['c', 'color'])
                segs.append(['t', ' '])
            elif r < 0.84 and fmt in ('dfxp', 'sami'):
                # the only blank between two words sits alone inside a styled span
                kind = rng.choice(['i', 'b', 'u'])
                segs += [['t', T.word(rng, p_meta=0)], ['o', kind, None], ['t', ' '], ['c', kind],
                         ['t', T.word(rng, p_meta=0) + ' ']]
            elif r < 0.9 and fmt in ('dfxp', 'sami'):
                segs.append(['t', T.word(rng, p_meta=0)])
                segs.append(['wrap'])
                segs.append(['t', T.word(rng, p_meta=0) + ' '])
            else:
                segs.append(['t', T.word(rng, p_meta=0.6, exclude=excl) + ' '])
        if fmt in ('dfxp', 'sami') and k == 0 and rng.random() < 0.12:
            segs.insert(0, ['lead', rng.choice(['\n    ', '\n    \n    ', '\r\n\t', '\n  \t \n      '])])
        lines.append(segs)
    if len(lines) >= 2 and rng.random() < 0.1:
        # a line of a single character ("I", "?", a note) between or after the others
        lines.insert(rng.randrange(1, len(lines) + 1), [['t', rng.choice(['I', 'A', 'a', '?', '5', '\u266a', '\u2026', '-'])]])
    if fmt == 'webvtt' and len(lines) >= 2 and rng.random() < 0.12:
        # a line of blanks only is not the empty line that ends a cue
        lines.insert(rng.randrange(1, len(lines)), [['t', rng.choice([' ', '  ', '\t', '\u00a0', '\u3000 '])]])
    return lines


# ------------------------------------------------------------------------------- display

def display(line, fmt):
    out = ''
    for seg in line:
        k = seg[0]
        if k == 't':
            out += seg[1]
        elif k == 'o' and seg[1] == 'v':
            out += seg[2] + ': '
        elif k == 'unk':
            out += seg[1]
        elif k == 'wrap':
            out += ' '
    return out


# ------------------------------------------------------------------------------- rendering

from html.entities import codepoint2name as _HTML_NAMES   # noqa: E402


def _ref(rng, ch, fmt, named):
    """One character spelled as a reference."""
    forms = []
    if ch in named:
        forms += [named[ch]] * 3
    if fmt in ('dfxp', 'sami'):
        forms += ['&#%d;' % ord(ch), '&#x%x;' % ord(ch), '&#x%X;' % ord(ch)]
    return rng.choice(forms)


def esc(s, fmt, rng):
    """Escapes literal text for the format with a random legal spelling per character."""
    if fmt in ('srt', 'microdvd'):
        return s
    if fmt == 'webvtt':
        out = ''
        i = 0
        while i < len(s):
            ch = s[i]
            if ch == '&':
                out += '&amp;'
            elif ch == '<':
                out += '&lt;'
            elif ch == '>':
                # '-->' may not occur in cue text; other '>' may be raw
                if out.endswith('--') or rng.random() < 0.5:
                    out += '&gt;'
                else:
                    out += '>'
            elif ch == '\u00a0' and rng.random() < 0.7:
                out += '&nbsp;'
            elif ch == '\u200e' and rng.random() < 0.7:
                out += '&lrm;'
            elif ch == '\u200f' and rng.random() < 0.7:
                out += '&rlm;'
            else:
                out += ch
            i += 1
        return out
    named = {'&': '&amp;', '<': '&lt;', '>': '&gt;', '"': '&quot;', "'": '&apos;'}
    if fmt == 'sami':
        named["'"] = '&#39;'
    out = ''
    for ch in s:
        if ch in '&<':
            out += _ref(rng, ch, fmt, named)
        elif ch in '>"\'':
            out += _ref(rng, ch, fmt, named) if rng.random() < 0.5 else ch
        elif ch.isalnum() and rng.random() < 0.03:
            out += _ref(rng, ch, fmt, {})
        elif ch == '\u00a0' and fmt == 'sami' and rng.random() < 0.5:
            out += '&nbsp;'
        elif fmt == 'sami' and ord(ch) in _HTML_NAMES and rng.random() < 0.4:
            # HTML's named references are case-sensitive: &Eacute; is not &eacute;
            out += '&%s;' % _HTML_NAMES[ord(ch)]
        else:
            out += ch
    return out


def render(line, fmt, rng):
    out = _render(line, fmt, rng)
    if fmt == 'webvtt':
        # '-->' may not occur in cue text, also not across two segments
        out = out.replace('-->', '--&gt;')
    if fmt == 'dfxp':
        # the CDATA-section-close delimiter may not occur in XML character data
        out = out.replace(']]>', ']]&gt;')
    return out


def _render(line, fmt, rng):
    out = ''
    for seg in line:
        k = seg[0]
        if k == 't':
            out += esc(seg[1], fmt, rng)
        elif k == 'lead':
            out += seg[1]
        elif k == 'wrap':
            out += '\n' + ' ' * rng.choice([2, 6, 10])
        elif k == 'ts':
            out += '<%s>' % seg[1]
        elif k == 'unk':
            out += seg[1]          # raw: it is not a tag for a conformant consumer of *this* check's reading
        elif k == 'o':
            kind, arg = seg[1], seg[2]
            if fmt == 'webvtt':
                if kind == 'v':
                    # a voice tag may carry classes: <v.loud Mary>, <v.first.loud Mary>
                    out += '<v%s %s>' % (rng.choice(['', '', '.loud', '.first.loud']), arg)
                elif kind == 'c':
                    out += '<c.%s>' % arg
                elif kind == 'lang':
                    out += '<lang %s>' % arg
                else:
                    out += '<%s>' % kind
            elif fmt == 'dfxp':
                attr = {'i': 'tts:fontStyle="italic"', 'b': 'tts:fontWeight="bold"',
                        'u': 'tts:textDecoration="underline"', 'color': 'tts:color="%s"' % arg,
                        # any other value of the three attributes (noUnderline, normal, oblique ...): no flag
                        'attr': '%s' % arg}[kind]
                # a reference to a style (one the document does not define) before or after the inline attributes
                r = rng.random()
                if r < 0.12:
                    attr = attr + ' style="nosuch"'
                elif r < 0.2:
                    attr = 'style="nosuch" ' + attr
                out += '<span %s>' % attr
            elif fmt == 'sami':
                if kind == 'attr':
                    out += '<span style="%s">' % arg
                elif kind in 'ibu':
                    out += '<%s>' % (kind.upper() if rng.random() < 0.5 else kind)
                else:
                    out += '<span style="color:%s;">' % arg
        elif k == 'c':
            kind = seg[1]
            if fmt == 'webvtt':
                out += '</%s>' % kind
            elif fmt == 'dfxp':
                out += '</span>'
            elif fmt == 'sami':
                out += '</%s>' % kind if kind in ('i', 'b', 'u') else '</span>'
    return out
