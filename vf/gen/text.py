"""Seeded text generators: printable Unicode with adversarial pools and unique tags."""
import unicodedata

_RANGES = [(0x21, 0x7E), (0xA1, 0x24F), (0x370, 0x3FF), (0x400, 0x45F), (0x5D0, 0x5EA),
           (0x621, 0x64A), (0x905, 0x939), (0x2010, 0x2027), (0x2030, 0x205E), (0x20A0, 0x20BF),
           (0x2190, 0x21FF), (0x2200, 0x222F), (0x2460, 0x2473), (0x2500, 0x2520), (0x3041, 0x3096),
           (0x30A1, 0x30FA), (0x4E00, 0x4E40), (0xAC00, 0xAC20), (0xFF01, 0xFF5E),
           (0x1D400, 0x1D419), (0x1F600, 0x1F64F)]


def _build():
    out = []
    for lo, hi in _RANGES:
        for cp in range(lo, hi + 1):
            ch = chr(cp)
            if unicodedata.category(ch)[0] in 'LNPS' and ch.isprintable():
                out.append(ch)
    return out


UNI = _build()
ASCII_LETTERS = 'abcdefghijklmnopqrstuvwxyzABCDEFGHIJKLMNOPQRSTUVWXYZ'
WORDS = ['the', 'quick', 'brown', 'fox', 'jumps', 'over', 'lazy', 'dog', 'Hello', 'world',
         'caption', 'Zoë', 'naïve', 'café', 'Straße', 'ночь', '東京', '한국', 'Ωmega', 'x2', '42',
         'I', 'a', 'rock&roll', "don't", 'e.g.', '100%', '#1', '@home', '(aside)', '[music]',
         '♪', '—', '…', '¿qué?', '1+1=2', 'A/B', 'C:\\dir', '$5.00', 'µs',
         # spaces that are not ASCII blanks inside a word: no-break, narrow no-break, ideographic, em space
         'n\u00a0b', '10\u202f000', '\u5168\u3000\u89d2', 'em\u2003sp',
         # format characters inside a word: zero width no-break space (the BOM code point), soft hyphen, ZWJ
         'zero\ufeffwidth', 'soft\u00adhyphen', 'zw\u200dj',
         # bidirectional marks (WebVTT spells them &lrm; / &rlm;)
         'l\u200erm', 'r\u200flm']

# format metacharacters and markup-/entity-looking strings (property C03's adversarial emphasis)
META = ['&', '<', '>', '"', "'", '-->', '->', '--', '&amp;', '&lt;', '&gt;', '&#65;', '&#x41;',
        '&nbsp;', '&apos;', '&quot;', '&bogus;', '&', '&;', '<i>', '</i>', '<b>', '</p>', '<p>',
        '<br/>', '<br>', '<!--', '-->', ']]>', '<![CDATA[', '<?xml', '{1}{2}', '{0}{0}', '{', '}',
        '<c.x>', '<v Bob>', '<00:00:01.000>', '</span>', '<span>', '<sync start=1>', '\\N', '\\',
        '00:00:01,000 --> 00:00:02,000', '7', '12', 'WEBVTT', 'NOTE', 'a<b', 'a>b', 'a&b', 'x < y > z',
        '<<', '>>', '&&', '<>', '="', "='", ';', ':', '%', '#', '<cat>', '<island>', '<uv>', '<x>']


def uni_word(rng, n=None):
    n = n or rng.randrange(1, 7)
    return ''.join(rng.choice(UNI) for _ in range(n))


def word(rng, meta=META, p_meta=0.25, p_uni=0.2, exclude=''):
    for _ in range(20):
        r = rng.random()
        if r < p_meta and meta:
            w = rng.choice(meta)
        elif r < p_meta + p_uni:
            w = uni_word(rng)
        else:
            w = rng.choice(WORDS)
        if not any(c in w for c in exclude):
            return w
    return 'w'


def line(rng, tag=None, nwords=None, meta=META, p_meta=0.25, p_uni=0.2, exclude='', glue=0.15):
    """A line of words. With probability `glue` two neighbouring words are joined without a
    space (so that metacharacters also occur inside words)."""
    n = nwords if nwords is not None else rng.randrange(1, 5)
    ws = [word(rng, meta, p_meta, p_uni, exclude) for _ in range(n)]
    if tag:
        ws.insert(rng.randrange(0, len(ws) + 1) if rng.random() < 0.3 else 0, tag)
    out = ws[0]
    for w in ws[1:]:
        out += ('' if rng.random() < glue else ' ') + w
    return out


def has_meta(s, metas=('&', '<', '>', '"', "'", '-->', '{', '|')):
    return any(m in s for m in metas)
