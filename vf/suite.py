"""Runs the repository's own test-suite as a workload with the monitors of vf.suite_monitors on."""
import json
import os
import subprocess
import sys
import tempfile

from vf import core


def run_suite():
    """-> {'counts': {...}, 'violations': [...], 'passed': n} (raises RuntimeError when pytest cannot run)."""
    fd, log = tempfile.mkstemp(prefix='verif-suite-', suffix='.json', dir=os.path.join(core.ROOT, 'out'))
    os.close(fd)
    env = dict(os.environ)
    env['VERIF_SUITE_LOG'] = log
    env['PYTHONPATH'] = os.pathsep.join([core.ROOT, core.REPO])
    env['PYTHONDONTWRITEBYTECODE'] = '1'
    try:
        p = subprocess.run([sys.executable, '-B', '-m', 'pytest', '-q', '-p', 'no:cacheprovider', '-p',
                            'vf.suite_monitors', '--timeout=900', '--continue-on-collection-errors',
                            os.path.join(core.REPO, 'tests')],
                           cwd=core.REPO, env=env, stdout=subprocess.PIPE, stderr=subprocess.STDOUT, timeout=600)
        tail = p.stdout.decode('utf-8', 'replace').strip().splitlines()[-1:] or ['']
        with open(log) as f:
            data = json.load(f)
        data['summary'] = tail[0]
        return data
    finally:
        if os.path.exists(log):
            os.remove(log)
