"""Independent reference parsers of the five text formats.  They share no code with
pycaption; each returns a list of cues
    {'start': us, 'end': us or None, 'lines': [display text lines], ...format specific...}
and raises RefSyntaxError when the document is not well-formed for that format.
"""
import html
import re
import xml.etree.ElementTree as ET
from fractions import Fraction
from html.parser import HTMLParser


class RefSyntaxError(Exception):
    pass


# ------------------------------------------------------------------------------- SRT

_SRT_STAMP = re.compile(r'^(\d{2,}):(\d{2}):(\d{2}),(\d{3})$')


_SRT_STAMP_LENIENT = re.compile(r'^(\d{2,}):(\d{2}):(\d{2})(?:,(\d{3}))?$')


def _srt_stamp(s, strict=True):
    m = (_SRT_STAMP if strict else _SRT_STAMP_LENIENT).match(s)
    if not m:
        raise RefSyntaxError('bad SRT timestamp %r' % s)
    h, mi, se, ms = m.groups()
    ms = ms or '0'
    if int(mi) > 59 or int(se) > 59:
        raise RefSyntaxError('SRT minute/second field out of range %r' % s)
    return ((int(h) * 60 + int(mi)) * 60 + int(se)) * 1000000 + int(ms) * 1000


def parse_srt(doc, strict=True):
    """Block grammar: index line, timing line, 1+ payload lines, blocks separated by one or
    more lines that are empty after stripping."""
    lines = doc.split('\n')
    cues = []
    i, n = 0, len(lines)
    while i < n:
        if lines[i].strip() == '':
            i += 1
            continue
        if not re.fullmatch(r'\d+', lines[i].strip()):
            raise RefSyntaxError('expected an index line, got %r' % lines[i])
        index = int(lines[i].strip())
        i += 1
        if i >= n or '-->' not in lines[i]:
            raise RefSyntaxError('expected a timing line after index %d' % index)
        parts = lines[i].split('-->')
        if len(parts) != 2:
            raise RefSyntaxError('bad timing line %r' % lines[i])
        start, end = _srt_stamp(parts[0].strip(), strict), _srt_stamp(parts[1].strip(), strict)
        i += 1
        payload = []
        while i < n and lines[i].strip() != '':
            payload.append(lines[i])
            i += 1
        cues.append({'index': index, 'start': start, 'end': end, 'lines': payload})
    return cues


# ------------------------------------------------------------------------------- WebVTT

_VTT_STAMP = re.compile(r'^(?:(\d{2,}):)?(\d{2}):(\d{2})\.(\d{3})$')
_VTT_ENT = {'amp': '&', 'lt': '<', 'gt': '>', 'nbsp': '\u00a0', 'lrm': '\u200e', 'rlm': '\u200f'}


def _vtt_stamp(s):
    m = _VTT_STAMP.match(s)
    if not m:
        raise RefSyntaxError('bad WebVTT timestamp %r' % s)
    h, mi, se, ms = m.groups()
    if int(mi) > 59 or int(se) > 59:
        raise RefSyntaxError('WebVTT minute/second out of range %r' % s)
    return ((int(h or 0) * 60 + int(mi)) * 60 + int(se)) * 1000000 + int(ms) * 1000


def vtt_cue_text(line):
    """Display text and inline-tag events of one payload line, per the WebVTT cue text
    tokenizer: '<...>' is a tag (dropped from the text), '&name;' for the six known names is
    decoded once, every other '&' is literal.  Returns (text, tags) where tags is a list of
    (position in text, tag string)."""
    out = []
    tags = []
    i, n = 0, len(line)
    while i < n:
        c = line[i]
        if c == '<':
            j = line.find('>', i)
            if j < 0:
                j = n - 1
            tags.append((len(''.join(out)), line[i + 1:j]))
            i = j + 1
        elif c == '&':
            m = re.match(r'&([a-z]+);', line[i:])
            if m and m.group(1) in _VTT_ENT:
                out.append(_VTT_ENT[m.group(1)])
                i += len(m.group(0))
            else:
                out.append('&')
                i += 1
        else:
            out.append(c)
            i += 1
    return ''.join(out), tags


def parse_webvtt(doc):
    lines = doc.replace('\r\n', '\n').replace('\r', '\n').split('\n')
    if not lines or not lines[0].startswith('WEBVTT'):
        raise RefSyntaxError('missing WEBVTT signature')
    if len(lines[0]) > 6 and lines[0][6] not in ' \t':
        raise RefSyntaxError('bad WEBVTT signature line')
    i, n = 1, len(lines)
    # header block ends at the first empty line
    while i < n and lines[i] != '':
        if '-->' in lines[i]:
            break
        i += 1
    cues = []
    while i < n:
        if lines[i] == '':
            i += 1
            continue
        ident = None
        if '-->' not in lines[i]:
            first = lines[i]
            if first.startswith('NOTE') and (len(first) == 4 or first[4] in ' \t'):
                while i < n and lines[i] != '':
                    i += 1
                continue
            if first.startswith('STYLE') or first.startswith('REGION'):
                while i < n and lines[i] != '':
                    i += 1
                continue
            ident = first
            i += 1
            if i >= n or '-->' not in lines[i]:
                raise RefSyntaxError('block that is neither a cue nor a comment: %r' % first)
        m = re.match(r'^(\S+)[ \t]+-->[ \t]+(\S+)(?:[ \t]+(.*))?$', lines[i].rstrip(' \t'))
        if not m:
            raise RefSyntaxError('bad WebVTT timing line %r' % lines[i])
        start, end = _vtt_stamp(m.group(1)), _vtt_stamp(m.group(2))
        settings = (m.group(3) or '').split()
        settings_raw = m.group(3) or ''
        i += 1
        payload = []
        while i < n and lines[i] != '' and '-->' not in lines[i]:
            payload.append(lines[i])
            i += 1
        texts, tags = [], []
        for p in payload:
            t, tg = vtt_cue_text(p)
            texts.append(t)
            tags.append(tg)
        cues.append({'id': ident, 'start': start, 'end': end, 'settings': settings, 'settings_raw': settings_raw,
                     'raw': payload, 'lines': texts, 'tags': tags})
    return cues


# ------------------------------------------------------------------------------- MicroDVD

def parse_microdvd(doc, default_fps=25):
    fps = Fraction(default_fps)
    cues = []
    for line in doc.split('\n'):
        if line == '':
            continue
        m = re.match(r'^\{(\d+)\}\{(\d+)\}(.*)$', line)
        if not m:
            raise RefSyntaxError('bad MicroDVD line %r' % line)
        a, b, txt = int(m.group(1)), int(m.group(2)), m.group(3)
        if a == 0 and b == 0 and re.fullmatch(r'\s*\d+(\.\d+)?\s*', txt):
            fps = Fraction(txt.strip())
            continue
        cues.append({'start_frame': a, 'end_frame': b,
                     'start': int(Fraction(a) * 1000000 / fps), 'end': int(Fraction(b) * 1000000 / fps),
                     'lines': txt.split('|')})
    return cues


# ------------------------------------------------------------------------------- TTML

TTML = 'http://www.w3.org/ns/ttml'
TTS = 'http://www.w3.org/ns/ttml#styling'
XMLNS = 'http://www.w3.org/XML/1998/namespace'
_CLOCK = re.compile(r'^(\d{2,}):(\d{2}):(\d{2})(?:\.(\d+)|:(\d{2}))?$')
_OFFSET = re.compile(r'^(\d+(?:\.\d+)?)(h|m|s|ms|f)$')


def ttml_time(s, fps=30):
    """TTML time expression -> exact Fraction of microseconds."""
    m = _CLOCK.match(s)
    if m:
        h, mi, se, frac, fr = m.groups()
        t = Fraction((int(h) * 60 + int(mi)) * 60 + int(se)) * 1000000
        if frac:
            t += Fraction(int(frac), 10 ** len(frac)) * 1000000
        if fr:
            t += Fraction(int(fr), fps) * 1000000
        return t
    m = _OFFSET.match(s)
    if m:
        v = Fraction(m.group(1))
        unit = {'h': 3600 * 10 ** 6, 'm': 60 * 10 ** 6, 's': 10 ** 6, 'ms': 1000,
                'f': Fraction(10 ** 6, fps)}[m.group(2)]
        return v * unit
    raise RefSyntaxError('bad TTML time expression %r' % s)


def _ttml_walk(el, chars, spans, attrs_stack, lines):
    """Collects text with the stack of span attribute dicts in force for every character."""
    def emit(text):
        if text:
            for ch in text:
                lines[-1].append((ch, list(attrs_stack)))
    emit(el.text)
    for ch in el:
        tag = ch.tag
        if tag == '{%s}br' % TTML or tag == 'br':
            lines.append([])
        elif tag == '{%s}span' % TTML or tag == 'span':
            attrs_stack.append(dict(ch.attrib))
            spans.append(dict(ch.attrib))
            _ttml_walk(ch, chars, spans, attrs_stack, lines)
            attrs_stack.pop()
        else:
            _ttml_walk(ch, chars, spans, attrs_stack, lines)
        emit(ch.tail)


def parse_ttml(doc):
    """Strict XML 1.0 parse (expat).  Returns a dict describing head and body."""
    try:
        root = ET.fromstring(doc.encode('utf-8') if doc.lstrip().startswith('<?xml') else doc)
    except ET.ParseError as e:
        raise RefSyntaxError('not well-formed XML: %s' % e)
    ns = '{%s}' % TTML
    res = {'root': root.tag, 'lang': root.get('{%s}lang' % XMLNS), 'styles': [], 'regions': [],
           'divs': [], 'root_attrib': dict(root.attrib)}
    for st in root.iter(ns + 'style'):
        res['styles'].append(dict(st.attrib))
    for rg in root.iter(ns + 'region'):
        res['regions'].append(dict(rg.attrib))
    body = root.find(ns + 'body')
    if body is not None:
        for div in body.iter(ns + 'div'):
            # xml:lang is inherited: a div that does not declare a language has the document's
            own = div.get('{%s}lang' % XMLNS)
            d = {'lang': own if own is not None else res['lang'], 'own_lang': own,
                 'attrib': dict(div.attrib), 'ps': []}
            for p in div.iter(ns + 'p'):
                lines = [[]]
                spans = []
                _ttml_walk(p, None, spans, [], lines)
                d['ps'].append({'attrib': dict(p.attrib), 'begin': p.get('begin'), 'end': p.get('end'),
                                'dur': p.get('dur'),
                                'charlines': lines, 'spans': spans,
                                'lines': [''.join(c for c, _ in ln) for ln in lines]})
            res['divs'].append(d)
    return res


# ------------------------------------------------------------------------------- SAMI

class _SamiParser(HTMLParser):
    def __init__(self):
        super().__init__(convert_charrefs=True)
        self.syncs = []      # [{'start': str, 'ps': [...]}]
        self.cur_p = None
        self.in_style = False
        self.css = ''
        self.stack = []
        self.comments = []

    def handle_starttag(self, tag, attrs):
        a = dict(attrs)
        if tag == 'sync':
            self._close_p()
            self.syncs.append({'start': a.get('start'), 'ps': []})
        elif tag == 'p':
            self._close_p()
            if not self.syncs:
                return
            self.cur_p = {'attrib': a, 'class': a.get('class'), 'charlines': [[]], 'spans': []}
            self.syncs[-1]['ps'].append(self.cur_p)
            self.stack = []
        elif tag == 'br':
            if self.cur_p is not None:
                self.cur_p['charlines'].append([])
        elif tag == 'style':
            self.in_style = True
        elif self.cur_p is not None:
            self.stack.append((tag, a))
            self.cur_p['spans'].append((tag, a))

    def handle_startendtag(self, tag, attrs):
        if tag == 'br':
            self.handle_starttag(tag, attrs)

    def handle_endtag(self, tag):
        if tag == 'p':
            self._close_p()
        elif tag == 'sync':
            self._close_p()
        elif tag == 'style':
            self.in_style = False
        elif self.cur_p is not None:
            for i in range(len(self.stack) - 1, -1, -1):
                if self.stack[i][0] == tag:
                    del self.stack[i:]
                    break
            else:
                self.cur_p.setdefault('stray_end_tags', []).append(tag)

    def _close_p(self):
        if self.cur_p is not None and self.stack:
            self.cur_p.setdefault('unclosed', []).extend(t for t, _ in self.stack)
        self.cur_p = None
        self.stack = []

    def handle_data(self, data):
        if self.in_style:
            self.css += data
        elif self.cur_p is not None:
            for ch in data:
                self.cur_p['charlines'][-1].append((ch, list(self.stack)))

    def handle_comment(self, data):
        if self.in_style:
            self.css += data
        self.comments.append(data)


def parse_sami(doc):
    p = _SamiParser()
    p.feed(doc)
    p.close()
    p._close_p()
    # class -> lang from the stylesheet
    class_lang = {}
    for m in re.finditer(r'\.([^\s{]+)\s*\{([^}]*)\}', p.css):
        lm = re.search(r'lang\s*:\s*([^;\s]+)', m.group(2))
        if lm:
            class_lang[m.group(1).lower()] = lm.group(1)
    syncs = []
    for s in p.syncs:
        try:
            start = int(s['start'])
        except (TypeError, ValueError):
            raise RefSyntaxError('sync start is not an integer literal: %r' % s['start'])
        ps = []
        for q in s['ps']:
            lines = [''.join(c for c, _ in ln) for ln in q['charlines']]
            cls = q['class']
            inline = q['attrib'].get('lang')
            ps.append({'class': cls, 'lang': inline if inline else class_lang.get((cls or '').lower(), cls),
                       'attrib': q['attrib'], 'lines': lines, 'charlines': q['charlines'],
                       'spans': q['spans'], 'unclosed': q.get('unclosed', []),
                       'stray_end_tags': q.get('stray_end_tags', []),
                       'blank': ''.join(lines).replace('\u00a0', ' ').strip() == ''})
        syncs.append({'start_ms': start, 'ps': ps})
    return {'syncs': syncs, 'class_lang': class_lang, 'css': p.css}
