"""Reference arithmetic for relativization, fit-to-screen and the WebVTT mapping, in Fraction."""
from fractions import Fraction

HALF_CENT = Fraction(5, 1000) + Fraction(1, 10 ** 9)


class NeedsDimension(Exception):
    pass


def to_pct(size, horizontal, vw, vh, cells_anyway=False):
    """size [value, unit] -> Fraction percent.  Raises NeedsDimension when an absolute unit needs a
    video dimension that was not supplied ('c' needs none in principle: flagged with .cells)."""
    v, unit = Fraction(str(size[0])), size[1]
    if unit == '%':
        return v
    dim = vw if horizontal else vh
    if unit == 'c':
        if dim is None and not cells_anyway:
            e = NeedsDimension('cells')
            e.cells = True
            e.value = v * 100 / (32 if horizontal else 15)
            raise e
        return v * 100 / (32 if horizontal else 15)
    if dim is None:
        e = NeedsDimension(unit)
        e.cells = False
        raise e
    px = {'px': v, 'em': v * 16, 'pt': v * 4 / 3}[unit]
    return px * 100 / Fraction(dim)


def relativize(layout, vw, vh, cells_anyway=False):
    """layout spec -> same structure with Fraction percentages (or raises NeedsDimension)."""
    out = {'origin': None, 'extent': None, 'padding': None, 'alignment': layout.get('alignment')}
    if layout.get('origin'):
        out['origin'] = [to_pct(layout['origin'][0], True, vw, vh, cells_anyway), to_pct(layout['origin'][1], False, vw, vh, cells_anyway)]
    if layout.get('extent'):
        out['extent'] = [to_pct(layout['extent'][0], True, vw, vh, cells_anyway), to_pct(layout['extent'][1], False, vw, vh, cells_anyway)]
    if layout.get('padding'):
        b, a, s, e = [p if p is not None else [0, '%'] for p in layout['padding']]
        out['padding'] = [to_pct(b, False, vw, vh, cells_anyway), to_pct(a, False, vw, vh, cells_anyway), to_pct(s, True, vw, vh, cells_anyway),
                          to_pct(e, True, vw, vh, cells_anyway)]
    return out


def is_relative(layout):
    for key in ('origin', 'extent', 'padding'):
        for s in layout.get(key) or []:
            if s is not None and s[1] != '%':
                return False
    return True


def as_fractions(layout):
    """A percentage layout spec -> Fractions (no conversion)."""
    return relativize(layout, None, None)


def fit(rel):
    """fit-to-screen on a relativized layout (only defined when it has an origin)."""
    if not rel.get('origin'):
        return rel
    x, y = rel['origin']
    out = dict(rel)
    if not rel.get('extent'):
        out['extent'] = [90 - x, 95 - y]
    else:
        w, h = rel['extent']
        out['extent'] = [w if x + w <= 90 else 90 - x, h if y + h <= 95 else 95 - y]
    return out


def parse_pct(s):
    """'12.5%' -> Fraction, None when it is not a percentage literal."""
    if not s.endswith('%'):
        return None
    try:
        return Fraction(s[:-1])
    except ValueError:
        return None


def close(written, exact):
    return written is not None and abs(written - exact) <= HALF_CENT


def webvtt_expected(rel, align_spec):
    """Expected cue settings of a relativized (and fitted) layout: dict with optional keys
    align / position / line / size (Fractions for the numbers)."""
    out = {}
    h = align_spec[0] if align_spec else None
    align = h if h in ('left', 'center', 'right', 'start', 'end') else 'start'
    if align != 'center':
        out['align'] = align
    x = y = w = None
    if rel.get('origin'):
        x, y = rel['origin']
    if rel.get('extent'):
        w = rel['extent'][0]
    if rel.get('padding'):
        b, a, s, e = rel['padding']
        if x is not None:
            x = x + s
            if w is not None:
                w = w - s
        if w is not None:
            w = w - e
        if y is not None:
            y = y + b
    if x is not None:
        out['position'] = x
    if y is not None:
        out['line'] = y
    if w is not None:
        out['size'] = w
    return out
