"""An independent CEA-608 (line 21, channel 1) encoder and reference decoder.

Nothing here is imported from pycaption: the code tables are rebuilt from the standard
(7-bit codes + odd parity), the decoder is a plain screen model (two 15x32 memories, cursor,
pen italics, doubled-control filter).
"""
import re


def parity(b):
    return b | 0x80 if bin(b).count('1') % 2 == 0 else b


def word(b1, b2):
    return '%02x%02x' % (parity(b1), parity(b2))


# ------------------------------------------------------------------------- character tables
BASIC = {}
for _c in range(0x20, 0x80):
    BASIC[_c] = chr(_c)
BASIC.update({0x2a: 'á', 0x5c: 'é', 0x5e: 'í', 0x5f: 'ó', 0x60: 'ú', 0x7b: 'ç', 0x7c: '÷',
              0x7d: 'Ñ', 0x7e: 'ñ', 0x7f: '█'})
BASIC_CODE = {ch: code for code, ch in BASIC.items()}
SPECIAL = ['®', '°', '½', '¿', '™', '¢', '£', '♪', 'à', ' ', 'è', 'â', 'ê', 'î', 'ô', 'û']
EXT1 = ['Á', 'É', 'Ó', 'Ú', 'Ü', 'ü', '‘', '¡', '*', '’', '—', '©', '℠', '•', '“', '”',
        'À', 'Â', 'Ç', 'È', 'Ê', 'Ë', 'ë', 'Î', 'Ï', 'ï', 'Ô', 'Ù', 'ù', 'Û', '«', '»']
EXT2 = ['Ã', 'ã', 'Í', 'Ì', 'ì', 'Ò', 'ò', 'Õ', 'õ', '{', '}', '\\', '^', '_', '|', '~',
        'Ä', 'ä', 'Ö', 'ö', 'ß', '¥', '¤', '¦', 'Å', 'å', 'Ø', 'ø', '┌', '┐', '└', '┘']
STANDIN = {}
for _ch in EXT1 + EXT2:
    import unicodedata as _u
    base = _u.normalize('NFD', _ch)[0]
    STANDIN[_ch] = base if base in BASIC_CODE and base != _ch else {'‘': "'", '’': "'", '“': '"', '”': '"',
                                                                   '—': '-', '©': 'c', '℠': 's', '•': '.',
                                                                   '«': '<', '»': '>', '¡': '!', 'ß': 's',
                                                                   '¥': 'Y', '¤': 'C', '¦': '-', 'Ø': 'O', 'ø': 'o',
                                                                   '┌': '+', '┐': '+', '└': '+', '┘': '+',
                                                                   '*': '#', '{': '(', '}': ')', '\\': '/',
                                                                   '^': 'x', '_': '-', '|': '!', '~': '-'}.get(_ch, 'x')

ROW_CODE = {1: (0x11, 0x40), 2: (0x11, 0x60), 3: (0x12, 0x40), 4: (0x12, 0x60), 5: (0x15, 0x40),
            6: (0x15, 0x60), 7: (0x16, 0x40), 8: (0x16, 0x60), 9: (0x17, 0x40), 10: (0x17, 0x60),
            11: (0x10, 0x40), 12: (0x13, 0x40), 13: (0x13, 0x60), 14: (0x14, 0x40), 15: (0x14, 0x60)}
_ROW_OF = {v: k for k, v in ROW_CODE.items()}

CTRL = {'RCL': 0x20, 'BS': 0x21, 'DER': 0x24, 'RU2': 0x25, 'RU3': 0x26, 'RU4': 0x27, 'FON': 0x28,
        'RDC': 0x29, 'TR': 0x2a, 'RTD': 0x2b, 'EDM': 0x2c, 'CR': 0x2d, 'ENM': 0x2e, 'EOC': 0x2f}
_CTRL_OF = {v: k for k, v in CTRL.items()}


def ctrl(name):
    return word(0x14, CTRL[name])


def pac(row, col=0, italic=False, underline=False, color=None):
    """Preamble address code.  col is a multiple of 4 (indent PAC) unless italic/color is given
    (those PACs address column 0)."""
    hi, base = ROW_CODE[row]
    if italic:
        low = base + 0x0e
    elif color is not None:
        low = base + 2 * color          # 0 white 1 green 2 blue 3 cyan 4 red 5 yellow 6 magenta
    else:
        low = base + 0x10 + (col // 4) * 2
    return word(hi, low + (1 if underline else 0))


def tab(k):
    return word(0x17, 0x20 + k)


def midrow(code):
    """code 0..15: even = colour n/2 (0..6) / 14 = italics; odd = same, underlined."""
    return word(0x11, 0x20 + code)


def special(i):
    return word(0x11, 0x30 + i)


def extended(ch):
    if ch in EXT1:
        return word(0x12, 0x20 + EXT1.index(ch))
    return word(0x13, 0x20 + EXT2.index(ch))


def chars_to_words(s):
    """Basic characters, two per word, padded with the null byte."""
    out = []
    for i in range(0, len(s), 2):
        b1 = BASIC_CODE[s[i]]
        b2 = BASIC_CODE[s[i + 1]] if i + 1 < len(s) else 0x00
        out.append('%02x%02x' % (parity(b1), parity(b2)))
    return out


# ------------------------------------------------------------------------- reference decoder

class Cell:
    __slots__ = ('ch', 'italic', 'mid')

    def __init__(self, ch, italic, mid=False):
        self.ch, self.italic, self.mid = ch, italic, mid


class Decoder:
    """Pop-on / roll-up / paint-on screen model.  feed(word) for each 4-hex-digit word.
    Events are appended to self.events:
       ('show', index_of_word, caption_rows)   on EOC (pop-on), rows = {row: (start_col, [Cell|None...])}
       ('clear', index_of_word)                on EDM
    """

    def __init__(self):
        self.mode = None
        self.nondisp = {}
        self.disp = {}
        self.row, self.col = 15, 0
        self.italic = False
        self.last = None
        self.events = []
        self.n = 0
        self.start_col = {}

    # memory currently written to
    def _mem(self):
        return self.nondisp if self.mode == 'pop' else self.disp

    def _put(self, ch, mid=False):
        mem = self._mem()
        cells = mem.setdefault(self.row, [None] * 32)
        if not any(cells):
            self.start_col.setdefault((id(mem), self.row), self.col)
        cells[self.col] = Cell(ch, self.italic, mid)
        if self.col < 31:
            self.col += 1

    def _backspace(self):
        if self.col > 0:
            self.col -= 1
            cells = self._mem().get(self.row)
            if cells:
                cells[self.col] = None

    def feed(self, w):
        idx = self.n
        self.n += 1
        b1, b2 = int(w[:2], 16) & 0x7f, int(w[2:], 16) & 0x7f
        is_ctrl = 0x10 <= b1 <= 0x1f
        if is_ctrl:
            if self.last == w:
                self.last = None       # the second copy of a doubled code is ignored
                return
            self.last = w
        else:
            self.last = None
        if not is_ctrl:
            for b in (b1, b2):
                if b >= 0x20:
                    self._put(BASIC[b])
            return
        if b1 == 0x14 and b2 in _CTRL_OF:
            name = _CTRL_OF[b2]
            if name == 'RCL':
                self.mode = 'pop'
            elif name == 'ENM':
                self.nondisp = {}
            elif name == 'EDM':
                self.disp = {}
                self.events.append(('clear', idx))
            elif name == 'EOC':
                self.disp, self.nondisp = self.nondisp, self.disp
                rows = {}
                for r, cells in sorted(self.disp.items()):
                    if any(cells):
                        rows[r] = (self.start_col.get((id(self.disp), r), 0), cells)
                self.events.append(('show', idx, rows))
                self.mode = 'pop'
                self.start_col = {}
            elif name == 'BS':
                self._backspace()
            return
        if b1 == 0x17 and 0x21 <= b2 <= 0x23:
            self.col = min(31, self.col + (b2 - 0x20))
            return
        if b1 == 0x11 and 0x20 <= b2 <= 0x2f:
            self._put(' ', mid=True)
            self.italic = (b2 & 0x0e) == 0x0e
            return
        if b1 == 0x11 and 0x30 <= b2 <= 0x3f:
            self._put(SPECIAL[b2 - 0x30])
            return
        if b1 in (0x12, 0x13) and 0x20 <= b2 <= 0x3f:
            self._backspace()
            self._put((EXT1 if b1 == 0x12 else EXT2)[b2 - 0x20])
            return
        if b2 >= 0x40:
            key = (b1, 0x60 if b2 >= 0x60 else 0x40)
            if key in _ROW_OF:
                self.row = _ROW_OF[key]
                low = b2 & 0x1f
                if low >= 0x10:
                    self.col = ((low - 0x10) // 2) * 4
                    self.italic = False
                else:
                    self.col = 0
                    self.italic = (low & 0x0e) == 0x0e


def rows_to_captions(rows):
    """rows {row: (start_col, cells)} -> list of captions; consecutive rows form one caption.
    A caption is {'row':, 'col':, 'lines': [[(ch, italic, optional_space)...]]}."""
    out = []
    prev = None
    for r in sorted(rows):
        start_col, cells = rows[r]
        occupied = [i for i, c in enumerate(cells) if c is not None]
        first, last = occupied[0], occupied[-1]
        line = []
        for i in range(first, last + 1):
            c = cells[i]
            if c is None:
                line.append((' ', False, False))
            else:
                line.append((c.ch, c.italic, c.mid))
        if prev is not None and r == prev + 1:
            out[-1]['lines'].append(line)
        else:
            out.append({'row': r, 'col': start_col, 'lines': [line]})
        prev = r
    return out


def timecode(frames_total, drop=False):
    """frame count (at 30 fps nominal) -> 'HH:MM:SS:FF' or 'HH:MM:SS;FF' (no drop-frame skipping:
    the separator only selects the time base, as pycaption reads it)."""
    ff = frames_total % 30
    s = frames_total // 30
    return '%02d:%02d:%02d%s%02d' % (s // 3600, (s // 60) % 60, s % 60, ';' if drop else ':', ff)


def scc_text(lines):
    """lines: [(timecode, [words])] -> SCC document."""
    out = 'Scenarist_SCC V1.0\n\n'
    for tc, words in lines:
        out += tc + '\t' + ' '.join(words) + '\n\n'
    return out
