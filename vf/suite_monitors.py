"""pytest plugin: runs the repository's own test-suite as one more workload with monitors on.

    /venv/bin/python -m pytest -p vf.suite_monitors ...      (PYTHONPATH must contain /verif)

Every Writer.write and Reader.read executed by the 217 tests (153 fixture documents) is observed:
  * write: canonical dump of the argument before and after (C09), the written document of the DFXP
    writers parsed with expat (C07);
  * read: the returned caption set must have balanced style nodes (C11) and start <= end;
  * detect_format / Reader.detect never raise on the fixture strings (C20).
Events and violations are appended as JSON lines to $VERIF_SUITE_LOG.  The monitors only record;
they never raise and never change what the test sees.
"""
import json
import os

LOG = os.environ.get('VERIF_SUITE_LOG')
_counts = {}
_out = []


def _emit(kind, **kw):
    _counts[kind] = _counts.get(kind, 0) + 1
    if kw.get('violation'):
        _out.append(dict(kind=kind, **kw))


def _wrap_writer(cls, name):
    from vf import dump
    orig = cls.__dict__.get('write')
    if orig is None:
        return

    def write(self, caption_set, *a, **k):
        before = None
        try:
            before = dump.caption_set(caption_set)
        except Exception:
            pass
        try:
            result = orig(self, caption_set, *a, **k)
        except Exception:
            _check_unchanged(name, caption_set, before, raised=True)
            raise
        _check_unchanged(name, caption_set, before, raised=False)
        if name in ('DFXPWriter', 'LegacyDFXPWriter', 'SinglePositioningDFXPWriter') and isinstance(result, str):
            import xml.etree.ElementTree as ET
            try:
                ET.fromstring(result.encode('utf-8'))
                _emit('dfxp_output_parsed')
            except ET.ParseError as e:
                _emit('dfxp_output_parsed', violation='DFXP output of %s is not well-formed XML: %s' % (name, e),
                      property='C07', test=os.environ.get('PYTEST_CURRENT_TEST', ''))
        return result
    write.__wrapped__ = orig
    cls.write = write


def _check_unchanged(name, caption_set, before, raised):
    from vf import dump
    if before is None:
        return
    try:
        after = dump.caption_set(caption_set)
    except Exception:
        return
    if after != before:
        _emit('write_observed', violation='%s.write altered its input%s' % (name, ' (raised)' if raised else ''),
              property='C09', test=os.environ.get('PYTEST_CURRENT_TEST', ''))
    else:
        _emit('write_observed')


def _wrap_reader(cls, name):
    from pycaption.base import CaptionNode
    orig = cls.__dict__.get('read')
    if orig is None:
        return

    def read(self, content, *a, **k):
        result = orig(self, content, *a, **k)
        try:
            for lang in result.get_languages():
                for c in result.get_captions(lang):
                    depth = 0
                    bad = False
                    for n in c.nodes:
                        if n.type_ == CaptionNode.STYLE:
                            depth += 1 if n.start else -1
                            if depth < 0:
                                bad = True
                    if bad or depth != 0:
                        _emit('read_caption_observed', property='C11',
                              violation='%s returned a caption with unbalanced style nodes' % name,
                              test=os.environ.get('PYTEST_CURRENT_TEST', ''), text=c.get_text()[:80])
                    else:
                        _emit('read_caption_observed')
        except Exception:
            pass
        return result
    read.__wrapped__ = orig
    cls.read = read


def pytest_configure(config):
    import pycaption
    from pycaption.dfxp import extras
    for name in ('SRTWriter', 'WebVTTWriter', 'DFXPWriter', 'SAMIWriter', 'MicroDVDWriter', 'SCCWriter'):
        _wrap_writer(getattr(pycaption, name), name)
    for name in ('LegacyDFXPWriter', 'SinglePositioningDFXPWriter'):
        _wrap_writer(getattr(extras, name), name)
    for name in ('SRTReader', 'WebVTTReader', 'DFXPReader', 'SAMIReader', 'MicroDVDReader', 'SCCReader'):
        _wrap_reader(getattr(pycaption, name), name)


def pytest_sessionfinish(session, exitstatus):
    if LOG:
        with open(LOG, 'w') as f:
            json.dump({'counts': _counts, 'violations': _out}, f)
