"""C13 — absolute sizes are relativized exactly or refused; fit-to-screen stays safe."""
import re
from fractions import Fraction

from vf import dump
from vf.props import wcommon as W
from vf.ref import geometry as R, parsers

ID = 'C13'
RULE = ('one-caption sets whose layout (origin, extent, padding in px / em / pt / c / % over the value grid '
        '0, 0.25, 1, 7, 13.5, 100, 333, 640; origins also on and around the 90 / 95 safe-area edges) sits at '
        'caption, span, language or set level x video size (640x360, 1920x1080, 854x480, width only, height '
        'only, none) x relativize x fit_to_screen x {DFXPWriter, SAMIWriter, WebVTTWriter}. Expected values in '
        'Fraction (1em = 16px, 1pt = 4/3 px, 32x15 cells), written values may differ by 0.005. Non-trivial: '
        'an absolute unit is present or fit_to_screen changes the extent.')
ANCHORS = ['pycaption.geometry:Size.as_percentage_of', 'pycaption.geometry:Point.as_percentage_of',
           'pycaption.geometry:Stretch.as_percentage_of', 'pycaption.geometry:Padding.as_percentage_of',
           'pycaption.geometry:Layout.as_percentage_of', 'pycaption.geometry:Layout.fit_to_screen',
           'pycaption.base:BaseWriter._relativize_and_fit_to_screen',
           'pycaption.webvtt:WebVTTWriter._convert_positioning', 'pycaption.geometry:Size.__str__']
THOROUGH_SCALE = 6        # random budgets of the thorough tier are multiplied by this
REQUIRE = {'writes_DFXPWriter': 100, 'writes_SAMIWriter': 50, 'writes_WebVTTWriter': 100,
           'refusals_expected_and_seen': 50, 'values_compared': 1000, 'unit_px': 50, 'unit_em': 50,
           'unit_pt': 50, 'unit_c': 50, 'fit_extent_added': 30, 'fit_extent_clamped': 30,
           'fit_extent_unchanged': 30, 'fit_clamped_on_both_axes': 5, 'origin_on_safe_area_edge': 10,
           'percentages_just_below_a_whole_number': 20}
EXHAUSTIVE = {'quick': False, 'thorough': False}

VALUES = [0, 0.25, 1, 7, 13.5, 100, 333, 640]
UNITS = ['px', 'em', 'pt', 'c', '%']
VIDEOS = [(640, 360), (1920, 1080), (854, 480), (854, 486), (1366, 768), (640, None), (None, 360), (None, None)]


def _just_below_whole():
    """(dimension, px) pairs whose exact percentage lies in [n - 0.005, n) for a whole n: the printer must
    round them UP to n."""
    from fractions import Fraction
    out = {}
    for dim in (640, 360, 1920, 1080, 854, 480, 486, 1366, 768):
        for px in range(1, dim):
            pct = Fraction(px * 100, dim)
            n = int(pct) + 1
            if Fraction(n) - Fraction(5, 1000) <= pct < n:
                out.setdefault(dim, []).append(px)
    return out


JUST_BELOW = _just_below_whole()


def rand_size(rng, unit=None, small=False):
    unit = unit or rng.choice(UNITS)
    if unit == '%':
        v = rng.choice([0, 5, 10, 12.5, 25, 33.33, 50, 80, 89.99, 90, 90.01, 94.99, 95, 95.01])
    elif unit == 'c':
        v = rng.choice([0, 0.25, 1, 2, 7, 13.5, 15, 28])
    elif rng.random() < 0.4:
        # arbitrary integers: some percentages land just below a whole number (rounding of the printer)
        v = rng.randrange(0, 120 if small else 900)
    else:
        v = rng.choice(VALUES[:5] if small else VALUES)
    return [float(v), unit]


def gen_layout(rng):
    # one unit family per layout most of the time (mixed units make fit_to_screen refuse)
    unit = rng.choice(UNITS)
    mix = rng.random() < 0.2
    u = (lambda: rng.choice(UNITS)) if mix else (lambda: unit)
    lay = {'origin': None, 'extent': None, 'padding': None, 'alignment': None}
    r = rng.random()
    if r < 0.85:
        lay['origin'] = [rand_size(rng, u(), small=True), rand_size(rng, u(), small=True)]
    if rng.random() < 0.6:
        lay['extent'] = [rand_size(rng, u()), rand_size(rng, u())]
    if rng.random() < 0.4:
        lay['padding'] = [rand_size(rng, u(), small=True) for _ in range(4)]
    if rng.random() < 0.5:
        lay['alignment'] = [rng.choice(['left', 'center', 'right', 'start', 'end']), rng.choice(['top', 'center', 'bottom'])]
    if not any(lay.values()):
        lay['origin'] = [rand_size(rng, unit), rand_size(rng, unit)]
    return lay


def gen_edge_layout(rng):
    """Percentage layouts around the 90 / 95 edges, including overflow on both axes."""
    x = rng.choice([0, 10, 35, 40, 60, 80, 89.99, 90])
    y = rng.choice([0, 10, 25, 50, 90, 94.99, 95])
    lay = {'origin': [[float(x), '%'], [float(y), '%']], 'extent': None, 'padding': None, 'alignment': None}
    k = rng.random()
    if k < 0.75:
        w = rng.choice([0, 1, 10, 90 - x, 90 - x + 0.01, 90 - x - 0.01, 80, 100])
        h = rng.choice([0, 1, 10, 95 - y, 95 - y + 0.01, 95 - y - 0.01, 80, 100])
        lay['extent'] = [[float(max(0, w)), '%'], [float(max(0, h)), '%']]
    return lay


def cases(ctx):
    rng = ctx.rng('c13')
    writers = ['DFXPWriter', 'DFXPWriter', 'WebVTTWriter', 'WebVTTWriter', 'SAMIWriter']
    for i in range(ctx.budget(12000, 400000)):
        writer = writers[i % len(writers)]
        lay = gen_edge_layout(rng) if rng.random() < 0.3 else gen_layout(rng)
        vw, vh = rng.choice(VIDEOS)
        if rng.random() < 0.25 and lay.get('origin') and (vw in JUST_BELOW or vh in JUST_BELOW):
            lay['origin'] = [[float(rng.choice(JUST_BELOW[vw])) if vw in JUST_BELOW else 7.0, 'px'],
                             [float(rng.choice(JUST_BELOW[vh])) if vh in JUST_BELOW else 7.0, 'px']]
            if lay.get('extent'):
                lay['extent'] = [[1.0, 'px'], [1.0, 'px']]
            lay['padding'] = None
        level = rng.choice(['caption', 'caption', 'span', 'lang', 'set'] if writer == 'DFXPWriter' else ['caption', 'caption', 'span', 'lang'])
        if writer == 'SAMIWriter':
            level = rng.choice(['lang', 'set'])
            if not lay['padding']:
                lay['padding'] = [rand_size(rng, rng.choice(UNITS), small=True) for _ in range(4)]
        case = {'writer': writer, 'level': level, 'layout': lay, 'vw': vw, 'vh': vh,
                'relativize': rng.random() < 0.8, 'fit': rng.random() < 0.6,
                'second_language': writer in ('SAMIWriter', 'DFXPWriter') and rng.random() < 0.4,
                'declared_p_style': writer == 'SAMIWriter' and level == 'set' and rng.random() < 0.7}
        yield case
        if rng.random() < 0.25:
            # the very same layout again, for another video size (or without one): the percentages are those
            # of THIS video, whatever was computed for the layout before
            again = dict(case)
            again['vw'], again['vh'] = rng.choice([v for v in VIDEOS if v != (vw, vh)])
            again['repeat'] = True
            yield again


def nontrivial(case):
    if not R.is_relative(case['layout']):
        return True
    return case['fit'] and case['layout'].get('origin') is not None


def build_set(case):
    lay = case['layout']
    level = case['level']
    nodes = [['t', 'hello world']]
    if level == 'span':
        nodes = [['s', True, {'italics': True}, lay], ['t', 'hello world', lay], ['s', False, {'italics': True}, lay]]
    spec = {'langs': [{'lang': 'en', 'layout': lay if level == 'lang' else None,
                       'captions': [{'start': 1000000, 'end': 2000000, 'nodes': nodes, 'style': None,
                                     'layout': lay if level == 'caption' else None}]}],
            'styles': None, 'layout': lay if level == 'set' else None}
    if case.get('declared_p_style'):
        # a declared style whose own margins are absolute (what SAMIReader stores for 'P {margin-left: 32px}'):
        # its block receives the set-level padding
        spec['styles'] = {'p': {'margin-left': '32px', 'margin-top': '27pt', 'font-family': 'Arial'}}
    if case.get('second_language'):
        # the observed language comes second (SAMI treats the first language as primary)
        spec['langs'].insert(0, {'lang': 'fr', 'layout': None, 'captions': [
            {'start': 1000000, 'end': 2000000, 'nodes': [['t', 'bonjour']], 'style': None, 'layout': None}]})
    return dump.mk_caption_set(spec)


def _expected(case, ctx):
    """-> ('refuse', why) | ('skip', why) | ('layout', rel, fitted?)"""
    lay = case['layout']
    kind = 'layout'
    if case['relativize']:
        try:
            rel = R.relativize(lay, case['vw'], case['vh'])
        except R.NeedsDimension as e:
            if not getattr(e, 'cells', False):
                return ('refuse', str(e))
            # a cell length needs no video dimension in principle (32 x 15 grid): the writer may refuse, but
            # what it writes instead must be the exact cell percentage
            try:
                rel = R.relativize(lay, case['vw'], case['vh'], cells_anyway=True)
            except R.NeedsDimension as e2:
                return ('refuse', str(e2))
            kind = 'refuse-or-cells'
    else:
        if not R.is_relative(lay):
            return ('absolute-kept', None)
        rel = R.as_fractions(lay)
    if case['fit'] and rel.get('origin'):
        x, y = rel['origin']
        if x > 90 or y > 95:
            return ('skip', 'origin outside the safe area')
        if x == 90 or y == 95:
            ctx.count('origin_on_safe_area_edge')
        fitted = R.fit(rel)
        if not rel.get('extent'):
            ctx.count('fit_extent_added')
        elif fitted['extent'] != rel['extent']:
            ctx.count('fit_extent_clamped')
            if fitted['extent'][0] != rel['extent'][0] and fitted['extent'][1] != rel['extent'][1]:
                ctx.count('fit_clamped_on_both_axes')
        else:
            ctx.count('fit_extent_unchanged')
        rel = fitted
    return (kind, rel)


def _cmp_pair(attr, want, fails, what, ctx):
    if want is None:
        if attr is not None:
            fails.append({'what': what + ' written although the layout has none', 'got': attr})
        return
    if attr is None:
        fails.append({'what': what + ' missing', 'expected': [float(x) for x in want]})
        return
    parts = attr.split(' ')
    got = [R.parse_pct(p) for p in parts]
    ctx.count('values_compared', len(parts))
    if len(got) != len(want) or any(g is None for g in got) or \
            not all(R.close(g, w) for g, w in zip(got, want)):
        fails.append({'what': what + ' differs from the exact percentage (two decimals)',
                      'expected': [float(x) for x in want], 'got': attr})


def check(case, ctx):
    from pycaption.exceptions import RelativizationError
    writer = case['writer']
    ctx.count('writes_' + writer)
    for key in ('origin', 'extent', 'padding'):
        for s in case['layout'].get(key) or []:
            if s is not None and s[1] != '%':
                ctx.count('unit_' + s[1])
    o = case['layout'].get('origin')
    if o and o[0][1] == 'px' and o[1][1] == 'px' and (
            int(o[0][0]) in JUST_BELOW.get(case['vw'], ()) or int(o[1][0]) in JUST_BELOW.get(case['vh'], ())):
        ctx.count('percentages_just_below_a_whole_number')
    if case.get('repeat'):
        ctx.count('layouts_written_again_for_another_video_size')
    cs = build_set(case)
    opts = {'relativize': case['relativize'], 'fit_to_screen': case['fit'], 'video_width': case['vw'],
            'video_height': case['vh']}
    exp = _expected(case, ctx)
    # which levels does this writer transform? (DFXP: caption and node; language/set level is a known finding)
    raised = None
    out = None
    try:
        out = W.make_writer(writer, opts).write(cs)
    except RelativizationError as e:
        raised = e
    except ValueError as e:
        raised = e
    except Exception as e:
        return [{'what': 'writer raised an unexpected exception', 'error': repr(e)[:300]}]
    fails = []
    info = {'writer': writer, 'level': case['level'], 'layout': case['layout'], 'video': [case['vw'], case['vh']],
            'relativize': case['relativize'], 'fit': case['fit']}
    if exp[0] == 'refuse':
        if isinstance(raised, RelativizationError):
            ctx.count('refusals_expected_and_seen')
            return []
        if raised is not None:
            return []        # ValueError from a later stage also refuses to write
        # written: must not contain the absolute value converted wrongly — judged below as 'wrote instead of refusing'
        f = {'what': 'absolute length written although the needed video dimension was not supplied '
                     '(RelativizationError expected)', 'output': _extract(writer, out)}
        f.update(info)
        return [f]
    if raised is not None:
        if exp[0] in ('refuse-or-cells', 'skip', 'absolute-kept'):
            return []
        if isinstance(raised, ValueError) and not isinstance(raised, RelativizationError):
            # fit_to_screen refuses mixed / negative cases with ValueError: only legitimate for non-% input
            if not case['relativize']:
                return []
        f = {'what': 'writer refused although every needed dimension was supplied', 'error': repr(raised)[:300]}
        f.update(info)
        return [f]
    if exp[0] == 'refuse-or-cells':
        ctx.count('cell_lengths_written_without_the_video_dimension')
    if exp[0] in ('skip', 'absolute-kept'):
        if writer == 'WebVTTWriter' and re.search(r'(position|line|size):[\d.]+(px|em|pt|c)\b', out):
            f = {'what': 'WebVTT output contains a non-percentage length', 'output': _extract(writer, out)}
            f.update(info)
            return [f]
        return []
    rel = exp[1]
    if writer == 'DFXPWriter':
        doc = parsers.parse_ttml(out)
        regions = {r.get('{%s}id' % parsers.XMLNS): r for r in doc['regions']}
        div = [d for d in doc['divs'] if d['lang'] == 'en'][0]
        p = div['ps'][0]
        if case['level'] == 'span':
            rid = p['spans'][0].get('region') if p['spans'] else None
        elif case['level'] == 'caption':
            rid = p['attrib'].get('region')
        else:
            rid = div['attrib'].get('region')
        reg = regions.get(rid)
        if reg is None:
            f = {'what': 'no region found for the positioned element', 'region': rid}
            f.update(info)
            return [f]
        tts = '{%s}' % parsers.TTS
        _cmp_pair(reg.get(tts + 'origin'), rel.get('origin'), fails, 'tts:origin', ctx)
        _cmp_pair(reg.get(tts + 'extent'), rel.get('extent'), fails, 'tts:extent', ctx)
        pad = rel.get('padding')
        _cmp_pair(reg.get(tts + 'padding'), [pad[0], pad[3], pad[1], pad[2]] if pad else None, fails,
                  'tts:padding', ctx)
        if case['fit'] and rel.get('origin') and not fails:
            o = [R.parse_pct(x) for x in reg.get(tts + 'origin').split(' ')]
            e = [R.parse_pct(x) for x in reg.get(tts + 'extent').split(' ')]
            if o[0] + e[0] > Fraction(9001, 100) or o[1] + e[1] > Fraction(9501, 100):
                fails.append({'what': 'fitted region leaves the safe area', 'origin': reg.get(tts + 'origin'),
                              'extent': reg.get(tts + 'extent')})
    elif writer == 'WebVTTWriter':
        cues = parsers.parse_webvtt(out)
        settings = dict(s.split(':', 1) for s in cues[0]['settings'])
        want = R.webvtt_expected(rel, case['layout'].get('alignment'))
        if re.search(r'(px|em|pt|c)$', ' '.join(settings.values())) and False:
            pass
        # C13 is about the conversion of lengths, not about which paddings enter the cue box: for a layout
        # WITHOUT an origin the statement of C12 (position / line / size arithmetic) is explicitly silent, and a
        # size reduced by both horizontal paddings is as good as one reduced by the right padding only
        alt_size = None
        if not rel.get('origin') and rel.get('extent') and rel.get('padding'):
            alt_size = rel['extent'][0] - rel['padding'][2] - rel['padding'][3]
        for key in ('position', 'line', 'size'):
            if key in want:
                ctx.count('values_compared')
                got = R.parse_pct(settings.get(key, ''))
                if key == 'size' and alt_size is not None and got is not None and R.close(got, alt_size):
                    continue
                if got is None or not R.close(got, want[key]):
                    fails.append({'what': 'WebVTT %s differs from the exact percentage' % key,
                                  'expected': float(want[key]), 'got': settings.get(key)})
            elif key in settings:
                fails.append({'what': 'WebVTT %s written although not derivable' % key, 'got': settings[key]})
        if any(re.search(r'\d(px|em|pt|c)$', v) for v in settings.values()):
            fails.append({'what': 'WebVTT output contains a non-percentage length', 'settings': settings})
    else:
        doc = parsers.parse_sami(out)
        # the block of the observed language is the one that declares `lang: en` (its selector is the writer's
        # business)
        block = ''
        for sel, body in re.findall(r'([^{}]+)\{([^}]*)\}', doc['css']):
            if re.search(r'(^|;|\s)lang:\s*en\s*;', body):
                block = body
        pad = rel.get('padding')
        got = {k: v for k, v in re.findall(r'(margin-[a-z]+):\s*([^;]+);', block)}
        if case['level'] == 'lang':
            want = {'margin-top': pad[0], 'margin-bottom': pad[1], 'margin-left': pad[2], 'margin-right': pad[3]}
            for k, v in want.items():
                ctx.count('values_compared')
                g = R.parse_pct(got.get(k, '').strip())
                if g is None or not R.close(g, v):
                    fails.append({'what': 'SAMI %s differs from the exact percentage' % k, 'expected': float(v),
                                  'got': got.get(k)})
        elif case.get('declared_p_style'):
            # set-level padding is written into the blocks of declared styles, over their own margin rules
            mp = re.search(r'(?<![.\w])p\s*\{([^}]*)\}', doc['css'])
            gotp = {k: v for k, v in re.findall(r'(margin-[a-z]+):\s*([^;]+);', mp.group(1) if mp else '')}
            want = {'margin-top': pad[0], 'margin-bottom': pad[1], 'margin-left': pad[2], 'margin-right': pad[3]}
            ctx.count('sami_set_level_padding_observed_in_a_declared_style')
            for k, v in want.items():
                ctx.count('values_compared')
                g = R.parse_pct(gotp.get(k, '').strip())
                if g is None or not R.close(g, v):
                    fails.append({'what': 'SAMI %s of a declared style differs from the exact percentage of the '
                                          'set-level padding' % k, 'expected': float(v), 'got': gotp.get(k)})
        else:
            # set-level padding is only written into the blocks of declared styles; nothing to observe here
            ctx.count('sami_set_level_unobservable')
    for f in fails:
        f.update(info)
    return fails[:4]


def _extract(writer, out):
    if out is None:
        return None
    if writer == 'DFXPWriter':
        return re.findall(r'<region[^>]*>', out)[:4]
    if writer == 'WebVTTWriter':
        return [l for l in out.split('\n') if '-->' in l][:2]
    return re.findall(r'margin-[a-z]+:[^;]+;', out)[:8]


def classify(case, failure):
    """Known finding: DFXPWriter transforms caption- and node-level layouts only; a layout attached to the
    language (CaptionList) or the set is written untransformed (not relativized, not fitted)."""
    if case['writer'] == 'DFXPWriter' and case['level'] in ('lang', 'set'):
        w = failure.get('what', '')
        if w.startswith('absolute length written') or w.startswith('tts:') or w.startswith('fitted region') \
                or w.startswith('no region found'):
            return 'dfxp-language-and-set-level-layout-not-transformed'
    return None
