"""C18 — geometry values compare, hash, parse and print consistently."""
import itertools
from decimal import Decimal, ROUND_HALF_EVEN

from vf import dump
from vf.gen import geom

ID = 'C18'
LEVEL = 'exploration'
RULE = ('pair cases: all ordered pairs of a Size grid (5 units x 7 magnitudes) and of all 24 '
        'Alignments, plus random Point/Stretch/Padding/Layout pairs where b is a fresh equal copy of a, '
        'a copy with exactly one leaf changed, or independent; cross-class pairs (Point / Stretch of the same '
        'sizes etc.: symmetry, negation, equal => same hash); string cases: every string of the '
        'stated length over the alphabet 0159.+-eEpxm%ct<space> sharing a 2-char prefix (one case per '
        'prefix; strings are counted in monitor_counters.strings_checked); print / shorthand / '
        'receiver-immutability cases are random. A used receiver is asked a second relativization; parsed sizes are compared with constructed twins. Non-trivial: pair cases whose two values differ in '
        'at most one leaf or are equal; string batches; print cases with >2 decimals; '
        'shorthands of arity >= 2; immutability cases on non-percentage receivers.')
ANCHORS = [
    'pycaption.geometry:Size.__eq__', 'pycaption.geometry:Size.__hash__',
    'pycaption.geometry:Point.__eq__', 'pycaption.geometry:Point.__hash__',
    'pycaption.geometry:Stretch.__eq__', 'pycaption.geometry:Stretch.__hash__',
    'pycaption.geometry:Padding.__eq__', 'pycaption.geometry:Padding.__hash__',
    'pycaption.geometry:Alignment.__eq__', 'pycaption.geometry:Alignment.__hash__',
    'pycaption.geometry:Layout.__eq__', 'pycaption.geometry:Layout.__hash__',
    'pycaption.geometry:Size.from_string', 'pycaption.geometry:Size.__str__',
    'pycaption.geometry:TwoDimensionalObject.from_xml_attribute',
    'pycaption.geometry:Padding.from_xml_attribute',
    'pycaption.geometry:Padding.to_xml_attribute',
    'pycaption.geometry:Size.as_percentage_of', 'pycaption.geometry:Layout.as_percentage_of',
    'pycaption.geometry:Layout.fit_to_screen',
]
THOROUGH_SCALE = 6        # random budgets of the thorough tier are multiplied by this
REQUIRE = {'pairs_equal': 20, 'pairs_one_leaf_apart': 20, 'strings_checked': 1000,
           'strings_accepted': 5, 'receiver_checks_after_raise': 3,
           'layout_pairs_differing_only_in_webvtt_positioning': 10, 'cross_class_pairs_checked': 200}
EXHAUSTIVE = {'quick': False, 'thorough': False}
ASSUMPTIONS = ['magnitudes are non-negative finite floats',
               'string alphabet is the one named in the property (no newline, ASCII digits only)']

ALPHABET = '0159.+-eEpxm%ct '
UNIT_STR = ['px', 'em', '%', 'c', 'pt']


# ------------------------------------------------------------------ reference values

def canon(cls, spec):
    if spec is None:
        return None
    if cls == 'Size':
        return (float(spec[0]), spec[1])
    if cls in ('Point', 'Stretch'):
        return (canon('Size', spec[0]), canon('Size', spec[1]))
    if cls == 'Padding':
        return tuple(canon('Size', s) if s is not None else (0.0, '%') for s in spec)
    if cls == 'Alignment':
        return (spec[0], spec[1])
    if cls == 'Layout':
        return (canon('Point', spec.get('origin')), canon('Stretch', spec.get('extent')),
                canon('Padding', spec.get('padding')), canon('Alignment', spec.get('alignment')))
    raise ValueError(cls)


def build(cls, spec):
    from pycaption import geometry as g
    if spec is None:
        return None
    if cls == 'Size':
        return dump.mk_size(spec)
    if cls == 'Point':
        return g.Point(dump.mk_size(spec[0]), dump.mk_size(spec[1]))
    if cls == 'Stretch':
        return g.Stretch(dump.mk_size(spec[0]), dump.mk_size(spec[1]))
    if cls == 'Padding':
        return g.Padding(*[dump.mk_size(s) for s in spec])
    if cls == 'Alignment':
        return g.Alignment(g.HorizontalAlignmentEnum(spec[0]) if spec[0] else None,
                           g.VerticalAlignmentEnum(spec[1]) if spec[1] else None)
    if cls == 'Layout':
        return dump.mk_layout(spec)
    raise ValueError(cls)


def dump_any(cls, obj):
    return {'Size': dump.size, 'Point': dump.point, 'Stretch': dump.stretch,
            'Padding': dump.padding, 'Alignment': dump.alignment, 'Layout': dump.layout}[cls](obj)


def ref_parse_size(s):
    """Hand-written scanner: digit+ ('.' digit+)? unit | '0'.  Returns (value, unit) or None."""
    if s == '0':
        return (0.0, 'px')
    i, n = 0, len(s)
    while i < n and s[i] in '0123456789':
        i += 1
    if i == 0:
        return None
    j = i
    if j < n and s[j] == '.':
        k = j + 1
        while k < n and s[k] in '0123456789':
            k += 1
        if k == j + 1:
            return None
        j = k
    unit = s[j:]
    if unit not in UNIT_STR:
        return None
    return (float(Decimal(s[:j])), unit)


def _fmt(d, unit):
    s = format(d, 'f')
    if '.' in s:
        s = s.rstrip('0').rstrip('.')
    if s in ('-0', ''):
        s = '0'
    return s + unit


def ref_print(value, unit):
    return _fmt(Decimal(value).quantize(Decimal('0.01'), rounding=ROUND_HALF_EVEN), unit)


def ref_prints(value, unit):
    """The acceptable printings: the nearest two-decimal value; for an exact tie (x.125, x.375 ...) the statement
    does not fix the direction, both neighbours are two-decimal roundings."""
    from decimal import ROUND_FLOOR, ROUND_CEILING
    d = Decimal(value)
    lo = d.quantize(Decimal('0.01'), rounding=ROUND_FLOOR)
    hi = d.quantize(Decimal('0.01'), rounding=ROUND_CEILING)
    if lo != hi and d - lo == hi - d:
        return {_fmt(lo, unit), _fmt(hi, unit)}
    return {ref_print(value, unit)}


# ------------------------------------------------------------------ generation

def _rand(cls, rng):
    if cls == 'Size':
        return geom.rand_size(rng)
    if cls in ('Point', 'Stretch'):
        return geom.rand_point(rng)
    if cls == 'Padding':
        return geom.rand_padding(rng)
    if cls == 'Alignment':
        return geom.rand_alignment(rng)
    return geom.rand_layout(rng)


def _mutate_leaf(cls, spec, rng):
    """A deep copy of spec with exactly one leaf changed (so that canon differs)."""
    import copy
    for _ in range(50):
        s = copy.deepcopy(spec)
        if cls == 'Size':
            r = rng.random()
            if r < 0.25:
                # a magnitude that differs only beyond the second decimal / by one unit in the last place
                s[0] = float(s[0]) + rng.choice([0.001, 0.004, 0.0049, 1e-9, 0.005])
            elif r < 0.5:
                s[0] = float(rng.choice([m for m in geom.MAGS if m != s[0]]))
            else:
                s[1] = rng.choice([u for u in geom.UNITS if u != s[1]])
        elif cls in ('Point', 'Stretch'):
            i = rng.randrange(2)
            s[i] = _mutate_leaf('Size', s[i], rng)
        elif cls == 'Padding':
            i = rng.randrange(4)
            s[i] = _mutate_leaf('Size', s[i], rng) if s[i] is not None else geom.rand_size(rng)
        elif cls == 'Alignment':
            if rng.random() < 0.5:
                s[0] = rng.choice([h for h in geom.HALIGN + [None] if h != s[0]])
            else:
                s[1] = rng.choice([v for v in geom.VALIGN + [None] if v != s[1]])
        else:
            key = rng.choice(['origin', 'extent', 'padding', 'alignment'])
            sub = {'origin': 'Point', 'extent': 'Stretch', 'padding': 'Padding',
                   'alignment': 'Alignment'}[key]
            if s.get(key) is None:
                s[key] = _rand(sub, rng)
            elif rng.random() < 0.2:
                s[key] = None
            else:
                s[key] = _mutate_leaf(sub, s[key], rng)
        if canon(cls, s) != canon(cls, spec):
            return s
    return spec


def cases(ctx):
    rng = ctx.rng('c18')
    idx = 0
    # exhaustive grids
    sizes = geom.size_grid()
    for a in sizes:
        for b in sizes:
            if ctx.mine(idx):
                yield {'kind': 'pair', 'cls': 'Size', 'a': a, 'b': b}
            idx += 1
    aligns = [[h, v] for h in geom.HALIGN + [None] for v in geom.VALIGN + [None]]
    for a in aligns:
        for b in aligns:
            if ctx.mine(idx):
                yield {'kind': 'pair', 'cls': 'Alignment', 'a': a, 'b': b}
            idx += 1
    # layouts: every present/absent pattern against every other, with fixed components
    fixed = {'origin': [[10.0, '%'], [20.0, '%']], 'extent': [[30.0, '%'], [40.0, '%']],
             'padding': [[1.0, '%'], [2.0, '%'], [3.0, '%'], [4.0, '%']],
             'alignment': ['left', 'top']}
    pats = list(itertools.product([0, 1], repeat=4))
    keys = ['origin', 'extent', 'padding', 'alignment']
    for pa in pats:
        for pb in pats:
            if ctx.mine(idx):
                yield {'kind': 'pair', 'cls': 'Layout',
                       'a': {k: (fixed[k] if on else None) for k, on in zip(keys, pa)},
                       'b': {k: (fixed[k] if on else None) for k, on in zip(keys, pb)}}
            idx += 1
    # random pairs
    for _ in range(ctx.budget(15000, 500000)):
        cls = rng.choice(['Size', 'Point', 'Stretch', 'Padding', 'Alignment', 'Layout', 'Layout'])
        a = _rand(cls, rng)
        r = rng.random()
        if r < 0.35:
            import copy
            b = copy.deepcopy(a)
        elif r < 0.8:
            b = _mutate_leaf(cls, a, rng)
        else:
            b = _rand(cls, rng)
        case = {'kind': 'pair', 'cls': cls, 'a': a, 'b': b}
        if cls == 'Layout' and rng.random() < 0.3:
            case['webvtt'] = [rng.choice([None, 'align:left', 'line:10%']), rng.choice([None, 'align:left', 'size:50%'])]
        yield case
    # values of two different classes built from the same numbers (Point / Stretch, Size / Point, ...)
    for _ in range(ctx.budget(1500, 50000)):
        ca, cb = rng.sample(['Size', 'Point', 'Stretch', 'Padding', 'Alignment', 'Layout'], 2)
        if rng.random() < 0.6:
            ca, cb = rng.sample(['Point', 'Stretch'], 2)
        a = _rand(ca, rng)
        yield {'kind': 'xpair', 'cls_a': ca, 'a': a, 'cls_b': cb,
               'b': a if {ca, cb} == {'Point', 'Stretch'} and rng.random() < 0.7 else _rand(cb, rng)}
    # strings
    length = 4 if ctx.tier == 'quick' else 6
    for p in itertools.product(ALPHABET, repeat=2):
        if ctx.mine(idx):
            yield {'kind': 'strings', 'prefix': ''.join(p), 'length': length}
        idx += 1
    for _ in range(ctx.budget(3000, 200000)):
        n = rng.randrange(1, 13)
        if rng.random() < 0.6:
            # near-valid strings
            s = ''.join(rng.choice('0123456789') for _ in range(rng.randrange(1, 5)))
            if rng.random() < 0.5:
                s += '.' + ''.join(rng.choice('0123456789') for _ in range(rng.randrange(0, 4)))
            s += rng.choice(UNIT_STR + ['', 'p', 'x', 'xp', 'e', 'PX', ' px', 'px ', '%%', 'cc', 'e1px'])
            if rng.random() < 0.15:
                s = rng.choice(['+', '-', ' ', '.', '']) + s
        else:
            s = ''.join(rng.choice('0123456789.+-eEpxm%ct ') for _ in range(n))
        yield {'kind': 'string', 's': s}
    for _ in range(ctx.budget(300, 20000)):
        base = rng.choice(['0', '1', '12.5', '33.33', '99.99', '7', '100', '0.5'])
        unit = rng.choice(UNIT_STR)
        seq = [base + unit]
        for _k in range(rng.randrange(1, 4)):
            # same number up to the second decimal, another digit behind it
            whole, _, frac = base.partition('.')
            seq.append('%s.%s%s%s' % (whole, (frac + '00')[:2], rng.choice('0123456789')[:1] if rng.random() < 0.3 else '',
                                      rng.choice(['1', '4', '04', '49', '001'])) + unit)
        rng.shuffle(seq)
        yield {'kind': 'string-sequence', 'seq': seq}
    # printing
    for _ in range(ctx.budget(3000, 200000)):
        r = rng.random()
        if r < 0.3:
            v = rng.choice(geom.MAGS + [0.005, 0.125, 0.375, 2.675, 1.005, 99.995, 1e-9, 12345678.125,
                                        1e13, 1e15, 1e16, 1e17, 123456789012345680.0, 2.5e20])
        elif r < 0.6:
            v = round(rng.uniform(0, 1000), rng.randrange(0, 6))
        else:
            v = rng.randrange(0, 100000) / 1000.0 + rng.choice([0, 0.0005, 0.005])
        yield {'kind': 'print', 'value': float(v), 'unit': rng.choice(UNIT_STR)}
    # shorthand
    for _ in range(ctx.budget(1500, 50000)):
        n = rng.choice([1, 2, 3, 4, 4, 3, 2, 5, 0])
        toks = []
        for _i in range(n):
            v = rng.choice(['0', '1', '2', '3.5', '10', '12.5', '7'])
            toks.append(v + rng.choice(UNIT_STR))
        yield {'kind': 'padshort', 'tokens': toks}
    for _ in range(ctx.budget(500, 20000)):
        toks = [rng.choice(['0', '1', '3.5', '10']) + rng.choice(UNIT_STR) for _i in range(2)]
        yield {'kind': 'twod', 'cls': rng.choice(['Point', 'Stretch']), 'tokens': toks}
    # receiver immutability
    for _ in range(ctx.budget(3000, 150000)):
        cls = rng.choice(['Size', 'Point', 'Stretch', 'Padding', 'Layout', 'Layout'])
        spec = _rand(cls, rng)
        op = 'as_percentage_of'
        if cls == 'Layout' and rng.random() < 0.5:
            op = 'fit_to_screen'
            if rng.random() < 0.7:
                spec = geom.rand_layout(rng, units=['%'])
        vw, vh = rng.choice([(640, 360), (1920, 1080), (640, None), (None, 360), (None, None)])
        yield {'kind': 'immut', 'cls': cls, 'spec': spec, 'op': op, 'vw': vw, 'vh': vh}


def nontrivial(case):
    k = case['kind']
    if k == 'pair':
        ca, cb = canon(case['cls'], case['a']), canon(case['cls'], case['b'])
        if ca == cb:
            return True
        return _leaf_distance(ca, cb) <= 1
    if k in ('strings', 'string-sequence'):
        return True
    if k == 'string':
        return ref_parse_size(case['s']) is not None or any(u in case['s'] for u in UNIT_STR)
    if k == 'print':
        return round(case['value'] * 100) != case['value'] * 100
    if k == 'padshort':
        return len(case['tokens']) >= 2
    if k in ('twod', 'xpair'):
        return True
    if k == 'immut':
        return '%' not in str(case['spec']) or case['op'] == 'fit_to_screen'
    return False


def _leaves(t):
    if isinstance(t, tuple):
        out = []
        for x in t:
            out.extend(_leaves(x))
        return out
    return [t]


def _leaf_distance(a, b):
    la, lb = _leaves(a), _leaves(b)
    if len(la) != len(lb):
        return 99
    return sum(1 for x, y in zip(la, lb) if x != y)


# ------------------------------------------------------------------ oracle

def check(case, ctx):
    from pycaption.exceptions import CaptionReadSyntaxError, RelativizationError
    from pycaption import geometry as g
    k = case['kind']
    fails = []
    if k == 'pair':
        cls = case['cls']
        a, b = build(cls, case['a']), build(cls, case['b'])
        ca, cb = canon(cls, case['a']), canon(cls, case['b'])
        want = ca == cb
        got_ab, got_ba = bool(a == b), bool(b == a)
        ctx.count('pairs_checked')
        if want:
            ctx.count('pairs_equal')
        elif _leaf_distance(ca, cb) <= 1:
            ctx.count('pairs_one_leaf_apart')
        if cls == 'Layout' and case.get('webvtt'):
            # the raw WebVTT settings string is not a geometric component
            a.webvtt_positioning, b.webvtt_positioning = case['webvtt']
            ctx.count('layout_pairs_differing_only_in_webvtt_positioning' if want else 'layout_pairs_with_webvtt')
            got_ab, got_ba = bool(a == b), bool(b == a)
        if got_ab != want or got_ba != want:
            fails.append({'what': 'equality disagrees with component-wise equality',
                          'expected': want, 'a==b': got_ab, 'b==a': got_ba})
        if bool(a != b) == got_ab:
            fails.append({'what': '!= is not the negation of ==', 'a==b': got_ab})
        try:
            ha, hb = hash(a), hash(b)
        except Exception as e:
            fails.append({'what': 'hash() raised', 'error': repr(e)})
            return fails
        if want and ha != hb:
            fails.append({'what': 'equal values have different hashes'})
        if bool(a == a) is not True or hash(a) != ha:
            fails.append({'what': 'value is not equal to itself / hash unstable'})
        if want and cls in ('Layout', 'Point', 'Stretch', 'Padding', 'Size'):
            # the consumers: dict / _OrderedSet lookups must find the equal value
            d = {a: 1}
            if d.get(b) != 1:
                fails.append({'what': 'dict lookup with an equal value misses'})
        return fails
    if k == 'xpair':
        # whatever two values of different classes answer to ==, the value laws hold: == is symmetric, != its
        # negation, and values that compare equal hash alike
        a, b = build(case['cls_a'], case['a']), build(case['cls_b'], case['b'])
        ctx.count('cross_class_pairs_checked')
        try:
            ab, ba, ne = bool(a == b), bool(b == a), bool(a != b)
            none_eq = bool(a == None) or bool(None == a)        # noqa: E711
        except Exception as e:
            return [{'what': 'comparing values of two geometry classes raised', 'error': repr(e)[:300]}]
        if ab != ba:
            fails.append({'what': 'equality between two geometry classes is not symmetric', 'a==b': ab, 'b==a': ba})
        if ne == ab:
            fails.append({'what': '!= is not the negation of ==', 'a==b': ab})
        if none_eq:
            fails.append({'what': 'a geometry value compares equal to None'})
        if ab or ba:
            ctx.count('cross_class_pairs_equal')
            if hash(a) != hash(b):
                fails.append({'what': 'values that compare equal have different hashes',
                              'classes': [case['cls_a'], case['cls_b']]})
        return fails
    if k in ('strings', 'string', 'string-sequence'):
        if k == 'string':
            it = [case['s']]
        elif k == 'string-sequence':
            # legal sizes that print alike (they differ beyond the second decimal), parsed one after the other
            it = list(case['seq'])
            ctx.count('strings_parsed_after_a_string_that_prints_alike', len(it))
        else:
            rest = case['length'] - len(case['prefix'])
            it = (case['prefix'][:n] + ''.join(t)
                  for n in ([2] if rest >= 0 else [])
                  for L in range(0, rest + 1)
                  for t in itertools.product(ALPHABET, repeat=L))
        nacc = 0
        n = 0
        for s in it:
            n += 1
            want = ref_parse_size(s)
            try:
                parsed = g.Size.from_string(s)
                got = (parsed.value, parsed.unit.value)
                # a parsed size and the same size from the constructor are one value: equal, same hash
                twin = g.Size(parsed.value, parsed.unit)
                if not (parsed == twin) or hash(parsed) != hash(twin) or (parsed != twin):
                    fails.append({'what': 'a size parsed from a string and the same size built by the constructor '
                                          'are not equal or hash differently', 'string': s, 'value': got})
            except CaptionReadSyntaxError:
                got = None
            except Exception as e:
                fails.append({'what': 'from_string raised something other than CaptionReadSyntaxError',
                              'string': s, 'error': repr(e)})
                continue
            if want is not None:
                nacc += 1
            if got != want:
                fails.append({'what': 'size grammar accept/reject or value disagrees',
                              'string': s, 'expected': want, 'got': got})
                if len(fails) > 5:
                    break
        ctx.count('strings_checked', n)
        ctx.count('strings_accepted', nacc)
        return fails
    if k == 'print':
        s = g.Size(case['value'], g.UnitEnum(case['unit']))
        want = ref_prints(case['value'], case['unit'])
        got = str(s)
        ctx.count('prints_checked')
        if len(want) > 1:
            ctx.count('prints_of_exact_ties')
        if got not in want or s.to_xml_attribute() != got:
            fails.append({'what': 'printing differs from two-decimal rounding', 'expected': sorted(want), 'got': got})
            return fails
        back = g.Size.from_string(got)
        twin = g.Size(back.value, back.unit)
        if back != twin or hash(back) != hash(twin):
            fails.append({'what': 'a re-parsed size and the same size built by the constructor hash differently',
                          'printed': got})
        if str(back) != got or back.unit != s.unit or back.value != float(got[:len(got) - len(case['unit'])]):
            fails.append({'what': 're-parsing a printed size does not reproduce it',
                          'printed': got, 'reparsed': [back.value, back.unit.value]})
        return fails
    if k == 'padshort':
        toks = case['tokens']
        ctx.count('shorthands_checked')
        try:
            p = g.Padding.from_xml_attribute(' '.join(toks))
        except Exception as e:
            # the statement fixes one to four sizes; how any other arity is refused is open
            if 1 <= len(toks) <= 4:
                fails.append({'what': 'valid padding shorthand rejected', 'error': repr(e)})
            return fails
        if not 1 <= len(toks) <= 4:
            fails.append({'what': 'padding shorthand of illegal arity accepted', 'n': len(toks)})
            return fails
        ref = [ref_parse_size(t) for t in toks]
        if len(ref) == 1:
            before = end = after = start = ref[0]
        elif len(ref) == 2:
            before = after = ref[0]
            start = end = ref[1]
        elif len(ref) == 3:
            before, after = ref[0], ref[2]
            start = end = ref[1]
        else:
            before, end, after, start = ref
        got = tuple((s.value, s.unit.value) for s in (p.before, p.end, p.after, p.start))
        if got != (before, end, after, start):
            fails.append({'what': 'padding shorthand expands in the wrong order',
                          'expected(before,end,after,start)': [before, end, after, start], 'got': got})
        printed = p.to_xml_attribute()
        want_print = ' '.join(ref_print(*x) for x in (before, end, after, start))
        if printed != want_print and not all(pp in ref_prints(*x) for pp, x in zip(printed.split(' '), (before, end, after, start))):
            fails.append({'what': 'padding prints in the wrong order', 'expected': want_print, 'got': printed})
        return fails
    if k == 'twod':
        cls = getattr(g, case['cls'])
        o = cls.from_xml_attribute(' '.join(case['tokens']))
        ref = [ref_parse_size(t) for t in case['tokens']]
        a, b = (o.x, o.y) if case['cls'] == 'Point' else (o.horizontal, o.vertical)
        got = [(a.value, a.unit.value), (b.value, b.unit.value)]
        ctx.count('twod_checked')
        if got != ref:
            fails.append({'what': 'two-dimensional attribute parsed wrongly', 'expected': ref, 'got': got})
        if not all(pp in ref_prints(*x) for pp, x in zip(o.to_xml_attribute().split(' '), ref)):
            fails.append({'what': 'two-dimensional attribute printed wrongly', 'got': o.to_xml_attribute()})
        return fails
    if k == 'immut':
        cls = case['cls']
        obj = build(cls, case['spec'])
        before = dump_any(cls, obj)
        hb = hash(obj)
        raised = None
        res = None
        try:
            if case['op'] == 'fit_to_screen':
                res = obj.fit_to_screen()
            elif cls == 'Size':
                # a Size is converted against exactly one dimension
                if case['vw'] is not None:
                    res = obj.as_percentage_of(video_width=case['vw'])
                else:
                    res = obj.as_percentage_of(video_height=case['vh'])
            else:
                res = obj.as_percentage_of(case['vw'], case['vh'])
        except (RelativizationError, ValueError) as e:
            raised = e
        after = dump_any(cls, obj)
        ctx.count('receiver_checks')
        if raised is not None:
            ctx.count('receiver_checks_after_raise')
        if after != before or hash(obj) != hb:
            fails.append({'what': 'receiver modified by %s' % case['op'], 'before': before,
                          'after': after, 'raised': repr(raised)})
        if res is not None and res is not obj:
            # the result must not share mutable component objects that were altered
            if dump_any(cls, build(cls, case['spec'])) != before:
                fails.append({'what': 'spec rebuild differs (harness)'})
        if case['op'] != 'fit_to_screen':
            # observational side of "unchanged": the used receiver must answer a second question - another
            # reference length, the other axis - exactly as a fresh, equal value does
            def ask(o):
                try:
                    if cls == 'Size':
                        if case['vw'] is not None:
                            r = o.as_percentage_of(video_height=case['vw'] * 3 + 7)
                        else:
                            r = o.as_percentage_of(video_width=(case['vh'] or 100) * 3 + 7)
                    else:
                        r = o.as_percentage_of((case['vw'] or 100) * 3 + 7, (case['vh'] or 100) * 2 + 5)
                    return ['ok', dump_any(cls, r)]
                except (RelativizationError, ValueError) as e:
                    return ['raised', type(e).__name__]
            used, fresh = ask(obj), ask(build(cls, case['spec']))
            ctx.count('second_questions_to_a_used_receiver')
            if used != fresh:
                fails.append({'what': 'a value that was relativized before answers differently from a fresh equal value',
                              'used': used, 'fresh': fresh, 'first_reference': [case['vw'], case['vh']]})
        return fails
    raise ValueError(k)
