"""C11 — italic, bold and underline spans survive conversion and stay balanced."""
import re

from vf import dump
from vf.gen import docs, inline, text as T
from vf.props import wcommon as W
from vf.ref import parsers

ID = 'C11'
RULE = ('one-language caption sets whose captions are 1-3 lines, each line split into 1-3 text nodes at blanks, '
        'with 0-4 flat (non-nested, balanced) spans italic / bold / underline / italic+bold over arbitrary node '
        'ranges: line start, line end, across a break, adjacent, empty, whole caption. Chains: DFXP->DFXP, '
        'SAMI->SAMI, DFXP->SAMI, SAMI->DFXP (write, read back with pycaption, compare the (i,b,u) flags of every '
        'visible character) and WebVTT output (tags tokenised; a third of the sets let spans reference style '
        'classes of the set - nested references, an own entry overriding the class, an unknown class - resolved '
        'by an own resolver). Plus: every caption any reader returns for '
        'generated rich documents has balanced style nodes. DFXP / SAMI round trips of spans that name a style of the set. Non-trivial: a span touches a break or another span.')
ANCHORS = ['pycaption.dfxp.base:DFXPReader._convert_style', 'pycaption.dfxp.base:_recreate_style',
           'pycaption.dfxp.base:DFXPWriter._recreate_span', 'pycaption.sami:SAMIReader._translate_tag',
           'pycaption.sami:SAMIReader._translate_span', 'pycaption.sami:SAMIReader._translate_css_property',
           'pycaption.sami:SAMIWriter._recreate_style', 'pycaption.sami:SAMIWriter._recreate_line_style',
           'pycaption.sami:SAMIWriter._recreate_span', 'pycaption.webvtt:WebVTTWriter._group_cues_by_layout',
           'pycaption.webvtt:WebVTTWriter._convert_style_to_text_tag',
           'pycaption.webvtt:WebVTTWriter._calculate_resulting_style']
THOROUGH_SCALE = 3        # random budgets of the thorough tier are multiplied by this
REQUIRE = {'chain_dfxp': 50, 'chain_sami': 50, 'chain_dfxp>sami': 30, 'chain_sami>dfxp': 30, 'chain_webvtt': 50,
           'reader_captions_balance_checked': 200, 'chars_compared': 5000, 'spans_across_break': 50,
           'adjacent_spans': 50, 'empty_spans': 20, 'italic_chars': 500, 'bold_chars': 200, 'underline_chars': 200, 'positioned_captions': 30, 'suite_captions_balance_checked': 300,
           'rollup_streams_with_italics_read': 20, 'dfxp_documents_round_tripped': 20,
           'webvtt_sets_with_class_styled_spans': 20, 'round_trip_sets_with_class_styled_spans': 20, 'dfxp_documents_with_attribute_spellings': 20,
           'sami_documents_with_attribute_spellings': 20}

KINDS = [{'italics': True}, {'italics': True}, {'bold': True}, {'underline': True}, {'italics': True, 'bold': True},
         {'italics': True, 'underline': False}, {'bold': True, 'italics': False, 'underline': False},
         {'italics': True, 'text-align': 'right'}, {'italics': True, 'color': 'red', 'font-family': 'Arial'}]


# style classes a span may reference instead of carrying the flag itself (WebVTT chain): the writer
# resolves them through CaptionSet.get_style, recursively, the span's own entries winning
CLASS_STYLES = {'ki': {'italics': True}, 'Strong': {'bold': True}, 'titleRef': {'classes': ['ki'], 'class': 'ki', 'underline': True},
                'kplain': {'color': 'red'}, 'kall': {'classes': ['titleRef', 'Strong'], 'class': 'titleRef'}}
CLASS_KINDS = [{'class': 'ki'}, {'classes': ['ki'], 'class': 'ki'}, {'classes': ['ki', 'Strong'], 'class': 'ki'}, {'class': 'titleRef'},
               {'class': 'kplain'}, {'class': 'kall'}, {'class': 'ki', 'italics': False}, {'class': 'Strong', 'underline': True},
               {'class': 'nosuch'}, {'class': 'nosuch', 'italics': True}, {'class': 'Strong', 'italics': True}]


DIRECT_CLASS_KINDS = [{'class': 'ki'}, {'class': 'kplain'}, {'class': 'Strong'}, {'class': 'nosuch'},
                      {'class': 'ki', 'color': 'red'}, {'class': 'nosuch', 'italics': True},
                      {'class': 'Strong', 'italics': True}, {'class': 'kplain', 'italics': True}]


def resolve_flags(style, styles, depth=0):
    """(italic, bold, underline) of a span's content after resolving its class references: referenced
    classes first (in order, later ones winning), then the span's own entries."""
    res = {}
    refs = style['classes'] if 'classes' in style else [style['class']] if 'class' in style else []
    if depth < 8:
        for r in refs:
            res.update(resolve_flags(styles.get(r, {}), styles, depth + 1))
    res.update({k: v for k, v in style.items() if k in ('italics', 'bold', 'underline')})
    return res


# DFXP attribute spellings and the flag (i, b, u) each sets on the characters of its span
DFXP_ATTRS = [('tts:fontStyle="italic"', 0), ('tts:fontWeight="bold"', 1), ('tts:textDecoration="underline"', 2),
              ('tts:textDecoration="underline lineThrough"', 2), ('tts:textDecoration="overline underline"', 2),
              ('tts:textDecoration="noUnderline"', None), ('tts:textDecoration="noUnderline lineThrough"', None),
              ('tts:textDecoration="none"', None), ('tts:fontStyle="normal"', None), ('tts:fontWeight="normal"', None),
              ('tts:fontStyle="italic" tts:fontWeight="bold"', (0, 1)), ('tts:color="red"', None)]


SAMI_ATTRS = [('font-style:italic;', 0), ('font-weight:bold;', 1), ('text-decoration:underline;', 2),
              ('text-decoration:none;', None), ('text-decoration:line-through;', None), ('font-style:normal;', None),
              ('font-weight:normal;', None), ('font-style:italic;font-weight:bold;', (0, 1)), ('color:red;', None),
              ('font-weight:bold;text-decoration:underline;', (1, 2)), ('font-family:Arial;font-style:italic;', 0)]


def flag_lines(rng, tag, fmt):
    """Lines of plain words with flat spans, each span carrying one DFXP attribute spelling."""
    lines = []
    for k in range(rng.randrange(1, 4)):
        segs = [['t', f'{tag}.{k} ']]
        for _ in range(rng.randrange(1, 4)):
            if rng.random() < 0.6:
                attr, flag = rng.choice(SAMI_ATTRS if fmt == 'sami' else DFXP_ATTRS)
                segs.append(['o', 'attr', attr, flag])
                segs.append(['t', T.word(rng, p_meta=0, p_uni=0.1)])
                segs.append(['c', 'attr'])
                segs.append(['t', ' '])
            else:
                segs.append(['t', T.word(rng, p_meta=0, p_uni=0.1) + ' '])
        lines.append(segs)
    return lines


def _flags_of_segs(lines):
    out = []
    for segs in lines:
        cur = [False, False, False]
        for seg in segs:
            if seg[0] == 'o':
                f = seg[3]
                for i in ((f,) if isinstance(f, int) else (f or ())):
                    cur[i] = True
            elif seg[0] == 'c':
                cur = [False, False, False]
            elif seg[0] == 't':
                out.extend((ch, tuple(cur)) for ch in seg[1] if not ch.isspace())
    return out


def gen_caption(rng, tag):
    nodes = []
    for k in range(rng.randrange(1, 4)):
        if k:
            nodes.append(['b'])
        words = [f'{tag}.{k}'] + [T.word(rng, p_meta=0.1, p_uni=0.1) for _ in range(rng.randrange(1, 4))]
        parts = rng.randrange(1, min(3, len(words)) + 1)
        cut = sorted(rng.sample(range(1, len(words)), parts - 1)) if parts > 1 else []
        prev = 0
        for c in cut + [len(words)]:
            seg = ' '.join(words[prev:c])
            nodes.append(['t', seg + (' ' if c != len(words) else '')])
            prev = c
    n = len(nodes)
    nspans = rng.choice([0, 1, 1, 2, 2, 3, 4])
    pts = sorted(rng.randrange(0, n + 1) for _ in range(2 * nspans))
    if nspans and rng.random() < 0.15:
        pts = [0, n] + pts[2:]
        pts = pts[:2]
    spans = [(pts[2 * i], pts[2 * i + 1], rng.choice(KINDS)) for i in range(len(pts) // 2)]
    out = []
    feats = set()
    for i in range(n + 1):
        for a, b, kind in spans:
            if b == i and a != b:
                out.append(['s', False, kind])
        for a, b, kind in spans:
            if a == i:
                out.append(['s', True, kind])
                if a == b:
                    out.append(['s', False, kind])
                    feats.add('empty')
        if i < n:
            out.append(nodes[i])
    for a, b, kind in spans:
        if any(nodes[j][0] == 'b' for j in range(a, b)):
            feats.add('across-break')
    for (a1, b1, _), (a2, b2, _) in zip(spans, spans[1:]):
        if b1 == a2:
            feats.add('adjacent')
    return out, feats


def cases(ctx):
    rng = ctx.rng('c11')
    if ctx.shard == 0:
        yield {'kind': 'suite'}
    chains = ['dfxp', 'sami', 'dfxp>sami', 'sami>dfxp', 'webvtt']
    for i in range(ctx.budget(8000, 250000)):
        if i % 6 == 4 and rng.random() < 0.5:
            from vf.gen import sccprog
            # short rows: with simulate_roll_up the visible rows are joined into one line of at most 32 characters
            st = sccprog.gen_stream(rng, modes=rng.choice([['roll'], ['roll', 'paint'], ['roll', 'pop']]), rich=True,
                                    italics=True, lengths=[3, 4, 5, 6], tagged=False)
            lines, _ = sccprog.encode_stream(st)
            yield {'kind': 'reader', 'format': 'scc', 'doc': sccprog.scc_doc(lines), 'reader_kwargs': {},
                   'read_kwargs': {'simulate_roll_up': rng.random() < 0.7}, 'rollup': True}
            continue
        if i % 6 == 3 and rng.random() < 0.4:
            d = docs.gen_dfxp_styled(rng, f'Y{ctx.shard}.{i}')
            yield {'kind': 'doc-chain', 'doc': d['doc']}
            continue
        if i % 6 == 2 and rng.random() < 0.5:
            if rng.random() < 0.6:
                d = docs.gen_dfxp(rng, f'Y{ctx.shard}.{i}', text=flag_lines, nlang=1)
            else:
                d = docs.gen_sami(rng, f'Y{ctx.shard}.{i}', text=flag_lines, nlang=1, same_sync_twice=0, inline_lang=0)
            if d['expected'][0]['cues']:
                yield {'kind': 'doc-flags', 'format': d['format'], 'doc': d['doc'],
                       'cues': [c['segs'] for c in d['expected'][0]['cues']]}
                continue
        if i % 6 == 5 and rng.random() < 0.5:
            from vf.gen import sccprog
            prog = sccprog.gen_popon(rng, italic_bias=rng.choice([0.0, 0.6, 0.9]))
            lines, _ = sccprog.encode_popon(prog)
            yield {'kind': 'reader', 'format': 'scc', 'doc': sccprog.scc_doc(lines), 'reader_kwargs': {},
                   'read_kwargs': {}}
            continue
        if i % 6 == 5:
            fmt = rng.choice(['dfxp', 'sami', 'webvtt', 'srt', 'microdvd'])
            d = docs.generate(fmt, rng, f'Y{ctx.shard}.{i}', ctx, text=inline.rich_lines)
            yield {'kind': 'reader', 'format': fmt, 'doc': d['doc'], 'reader_kwargs': d['reader_kwargs'],
                   'read_kwargs': d['read_kwargs']}
            continue
        caps = []
        feats = set()
        t = 1000000
        for ci in range(rng.randrange(1, 4)):
            nodes, f = gen_caption(rng, f'Y{ctx.shard}.{i}.{ci}')
            feats |= f
            if rng.random() < 0.3:
                # all nodes of the caption (style nodes included) carry one layout
                from vf.gen import geom
                lay = geom.pct_layout(rng)
                for nd in nodes:
                    nd.append(lay) if nd[0] != 's' or len(nd) == 3 else None
                feats.add('positioned')
            caps.append({'start': t, 'end': t + 1500000, 'nodes': nodes, 'style': None, 'layout': None})
            t += 2000000
        chain = chains[i % len(chains)]
        styles = None
        if chain == 'webvtt' and rng.random() < 0.35:
            # some spans reference a style class of the set instead of carrying the flags themselves
            styles = {k: dict(v) for k, v in CLASS_STYLES.items()}
            if rng.random() < 0.5:
                styles['Blank'] = {}      # a style without rules, in front of the others
            for c in caps:
                opened = []
                for nd in c['nodes']:
                    if nd[0] != 's':
                        continue
                    if nd[1]:
                        opened.append(rng.choice(CLASS_KINDS) if rng.random() < 0.6 else nd[2])
                        nd[2] = opened[-1]
                    elif opened:
                        nd[2] = opened.pop()
            feats.add('class-styled')
        elif chain != 'webvtt' and rng.random() < 0.3:
            # DFXP / SAMI round trips: spans that name a style of the set (directly: how a style that itself refers to another
            # one comes out depends on the order the styles are written in, and is not judged); the set also has
            # styles that refer to others
            styles = {k: dict(v) for k, v in CLASS_STYLES.items()}
            if rng.random() < 0.5:
                styles['Blank'] = {}      # a style without rules, in front of the others
            for c in caps:
                opened = []
                for nd in c['nodes']:
                    if nd[0] != 's':
                        continue
                    if nd[1]:
                        opened.append(rng.choice(DIRECT_CLASS_KINDS) if rng.random() < 0.6 else nd[2])
                        nd[2] = opened[-1]
                    elif opened:
                        nd[2] = opened.pop()
            feats.add('class-styled-dfxp')
        yield {'kind': 'chain', 'chain': chain, 'features': sorted(feats),
               'inline_positioning': rng.random() < 0.4,
               # the DFXP hops are written by one of the three DFXP writers
               'dfxp_writer': rng.choice(['DFXPWriter'] * 5 + ['SinglePositioningDFXPWriter', 'LegacyDFXPWriter', 'LegacyDFXPWriter']),
               'set': {'langs': [{'lang': 'en-US', 'layout': None, 'captions': caps}], 'styles': styles, 'layout': None}}


def nontrivial(case):
    return case['kind'] in ('reader', 'suite', 'doc-chain', 'doc-flags') or bool(case['features'])


def flags_of_nodes(nodes_dump, styles=None):
    """[(char, (i, b, u))] for every non-blank character, plus balance problems."""
    out = []
    stack = []
    problems = []
    for n in nodes_dump:
        if n[0] == 's':
            if n[1]:
                stack.append(resolve_flags(n[2], styles) if styles else n[2])
            else:
                if not stack:
                    problems.append('style end without start')
                else:
                    stack.pop()
        elif n[0] == 't':
            fl = (any(s.get('italics') for s in stack), any(s.get('bold') for s in stack),
                  any(s.get('underline') for s in stack))
            for ch in n[1]:
                if not ch.isspace():
                    out.append((ch, fl))
    if stack:
        problems.append('style start never closed')
    return out, problems


def _read(fmt, doc):
    import pycaption
    return getattr(pycaption, {'dfxp': 'DFXPReader', 'sami': 'SAMIReader'}[fmt])().read(doc)


def _write(fmt, cs, inline_positioning=False, dfxp_writer=None):
    opts = {'write_inline_positioning': True} if fmt == 'dfxp' and inline_positioning else {}
    name = {'dfxp': dfxp_writer or 'DFXPWriter', 'sami': 'SAMIWriter', 'webvtt': 'WebVTTWriter'}[fmt]
    if name == 'LegacyDFXPWriter':
        opts = {}
    return W.make_writer(name, opts).write(cs)


def _planes(chain_step):
    return (0,) if chain_step == 'dfxp' else (0, 1, 2)


def check(case, ctx):
    import pycaption
    fails = []
    if case['kind'] == 'suite':
        from vf import suite
        data = suite.run_suite()
        ctx.count('suite_captions_balance_checked', data['counts'].get('read_caption_observed', 0))
        return [{'what': v['violation'], 'test': v.get('test'), 'text': v.get('text')} for v in data['violations']
                if v.get('property') == 'C11'][:3]
    if case['kind'] == 'doc-chain':
        # a styled DFXP document: the italic characters of what the reader returns must survive DFXP -> DFXP
        try:
            first = pycaption.DFXPReader().read(case['doc'])
        except Exception as e:
            return [{'what': 'reader raised', 'error': repr(e)[:300]}]
        ctx.count('dfxp_documents_round_tripped')
        want = {l: [flags_of_nodes([dump.node(n) for n in c.nodes])[0] for c in first.get_captions(l)]
                for l in first.get_languages()}
        second = pycaption.DFXPReader().read(pycaption.DFXPWriter().write(first))
        for l, caps in want.items():
            got = [flags_of_nodes([dump.node(n) for n in c.nodes])[0] for c in second.get_captions(l)]
            proj = lambda seq: [(ch, f[0]) for ch, f in seq]
            if [proj(x) for x in got] != [proj(x) for x in caps]:
                fails.append({'what': 'italic characters of a DFXP document differ after DFXP -> DFXP', 'lang': l,
                              'expected': [_show([(c, (f[0],)) for c, f in x]) for x in caps][:4],
                              'got': [_show([(c, (f[0],)) for c, f in x]) for x in got][:4]})
        return fails[:3]
    if case['kind'] == 'doc-flags':
        # a DFXP document whose spans spell the three attributes in every legal way: what the reader marks
        # italic / bold / underlined must be what the document says, observed on the WebVTT output
        try:
            reader = pycaption.SAMIReader if case.get('format') == 'sami' else pycaption.DFXPReader
            cs = reader().read(case['doc'])
            out = pycaption.WebVTTWriter().write(cs)
        except Exception as e:
            return [{'what': 'document -> WebVTT raised', 'format': case.get('format'), 'error': repr(e)[:300]}]
        ctx.count('sami_documents_with_attribute_spellings' if case.get('format') == 'sami'
                  else 'dfxp_documents_with_attribute_spellings')
        cues = parsers.parse_webvtt(out)
        if len(cues) != len(case['cues']):
            return [{'what': 'number of WebVTT cues differs', 'expected': len(case['cues']), 'got': len(cues)}]
        for cue, segs in zip(cues, case['cues']):
            want = _flags_of_segs(segs)
            got = _vtt_flags(cue, fails)
            ctx.count('chars_compared', len(want))
            if got != want:
                fails.append({'what': 'italic/bold/underline of a DFXP document differ in the WebVTT output',
                              'cue': cue['raw'], 'expected': _show(want), 'got': _show(got)})
        return fails[:3]
    if case['kind'] == 'reader':
        if case.get('rollup'):
            ctx.count('rollup_streams_with_italics_read')
        name = 'SCCReader' if case['format'] == 'scc' else docs.READERS[case['format']]
        try:
            cs = getattr(pycaption, name)(**case['reader_kwargs']).read(case['doc'], **case['read_kwargs'])
        except Exception as e:
            if type(e).__name__ == 'CaptionLineLengthError' and case.get('rollup'):
                ctx.count('rollup_streams_rejected_for_line_length')
                return []
            return [{'what': 'reader raised', 'error': repr(e)[:300]}]
        for lang in cs.get_languages():
            for c in cs.get_captions(lang):
                ctx.count('reader_captions_balance_checked')
                _, problems = flags_of_nodes([dump.node(n) for n in c.nodes])
                for p in problems:
                    fails.append({'what': 'caption returned by %s has unbalanced style nodes: %s' % (name, p),
                                  'nodes': [dump.node(n) for n in c.nodes][:12]})
        return fails[:3]
    chain = case['chain']
    ctx.count('chain_' + chain)
    if 'dfxp' in chain and case.get('dfxp_writer', 'DFXPWriter') != 'DFXPWriter':
        ctx.count('chains_through_' + case['dfxp_writer'])
    for f in case['features']:
        ctx.count({'across-break': 'spans_across_break', 'adjacent': 'adjacent_spans', 'empty': 'empty_spans',
                   'positioned': 'positioned_captions', 'class-styled': 'webvtt_sets_with_class_styled_spans',
                   'class-styled-dfxp': 'round_trip_sets_with_class_styled_spans'}[f])
    cs = dump.mk_caption_set(case['set'])
    want = [flags_of_nodes(c['nodes'], case['set'].get('styles'))[0] for c in case['set']['langs'][0]['captions']]
    for cap in want:
        ctx.count('italic_chars', sum(1 for _c, f in cap if f[0]))
        ctx.count('bold_chars', sum(1 for _c, f in cap if f[1]))
        ctx.count('underline_chars', sum(1 for _c, f in cap if f[2]))
    planes = (0, 1, 2)
    cur = cs
    if chain == 'webvtt':
        out = _write('webvtt', cs)
        cues = parsers.parse_webvtt(out)
        if len(cues) != len(want):
            return [{'what': 'number of WebVTT cues differs', 'got': len(cues)}]
        for k, (cue, w) in enumerate(zip(cues, want)):
            got = _vtt_flags(cue, fails)
            ctx.count('chars_compared', len(w))
            if got != w:
                fails.append({'what': 'italic/bold/underline flags differ in the WebVTT output', 'cue': cue['raw'],
                              'expected': _show(w), 'got': _show(got)})
        return fails[:3]
    for step in chain.split('>'):
        try:
            out = _write(step, cur, case.get('inline_positioning'), case.get('dfxp_writer'))
        except Exception as e:
            return [{'what': 'writer raised', 'step': step, 'error': repr(e)[:300]}]
        # markup balance of the output
        if step == 'dfxp':
            try:
                parsers.parse_ttml(out)
            except parsers.RefSyntaxError as e:
                return [{'what': 'DFXP output not well-formed (span markup unbalanced?)', 'error': str(e)[:200],
                         'output': out[:1200]}]
        else:
            doc = parsers.parse_sami(out)
            for s in doc['syncs']:
                for p in s['ps']:
                    if p['unclosed'] or p['stray_end_tags']:
                        fails.append({'what': 'SAMI output has unbalanced inline markup',
                                      'unclosed': p['unclosed'], 'stray': p['stray_end_tags'], 'lines': p['lines']})
        planes = tuple(p for p in planes if p in _planes(step))
        try:
            cur = _read(step, out)
        except Exception as e:
            return [{'what': 'reading back raised', 'step': step, 'error': repr(e)[:300]}]
        caps = cur.get_captions(cur.get_languages()[0])
        if len(caps) != len(want):
            return [{'what': 'number of captions changed', 'step': step, 'got': len(caps)}]
        for k, (c, w) in enumerate(zip(caps, want)):
            # a span read back may name a style of the set read back instead of carrying the flag itself
            got, problems = flags_of_nodes([dump.node(n) for n in c.nodes],
                                           {k: dict(v) for k, v in cur.get_styles()} or None)
            for p in problems:
                fails.append({'what': 'caption read back has unbalanced style nodes: ' + p, 'step': step})
            ctx.count('chars_compared', len(w))
            proj = lambda seq: [(ch, tuple(f[i] for i in planes)) for ch, f in seq]
            if proj(got) != proj(w):
                fails.append({'what': 'characters marked italic/bold/underline differ after the round trip',
                              'chain': chain, 'after_step': step, 'planes(i,b,u)': planes,
                              'expected': _show(proj(w)), 'got': _show(proj(got)),
                              'nodes_in': case['set']['langs'][0]['captions'][k]['nodes']})
    return fails[:3]


def _vtt_flags(cue, fails):
    got = []
    stack = []
    for raw in cue['raw']:
        for tok in re.split(r'(<[^>]*>)', raw):
            if tok.startswith('<') and tok.endswith('>'):
                name = tok[1:-1]
                if name in ('i', 'b', 'u'):
                    stack.append(name)
                elif name in ('/i', '/b', '/u'):
                    if not stack or stack[-1] != name[1:]:
                        fails.append({'what': 'WebVTT tags not properly nested', 'cue': cue['raw']})
                        stack = [x for x in stack if x != name[1:]]
                    else:
                        stack.pop()
            else:
                text, _ = parsers.vtt_cue_text(tok)
                fl = ('i' in stack, 'b' in stack, 'u' in stack)
                got.extend((ch, fl) for ch in text if not ch.isspace())
    if stack:
        fails.append({'what': 'WebVTT tag left open at the end of the cue', 'cue': cue['raw']})
    return got


def _show(seq):
    return ''.join(ch + ''.join('ibu'[i] for i, f in enumerate(fl) if f) + '|' if any(fl) else ch for ch, fl in seq)[:300]
