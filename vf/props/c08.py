"""C08 — any chain of conversions preserves the cue timeline and text."""
import itertools

from vf import dump
from vf.gen import capsets, text as T

ID = 'C08'
RULE = ('caption sets with sorted, non-overlapping cues below 24 h on a millisecond grid (40 ms frame grid when '
        'MicroDVD is on the chain), 1-3 uniquely tagged lines of adversarial text (metacharacters, entity- and '
        'markup-looking literals; no "|" when MicroDVD is on the chain), touching and separated cues; 1-2 '
        'languages for chains made of DFXP / SAMI only. All 25 ordered format pairs per set, plus sampled '
        'chains of length 3-5; every chain is run twice. After every hop the cues are compared with the source '
        'at the coarsest resolution so far (SAMI: final end of a language exempt). Some sets repeat a text inside a language. Non-trivial: two different '
        'formats on the chain or a metacharacter in the text.')
ANCHORS = ['pycaption.srt:SRTReader.read', 'pycaption.srt:SRTWriter.write', 'pycaption.webvtt:WebVTTReader.read',
           'pycaption.webvtt:WebVTTWriter.write', 'pycaption.dfxp.base:DFXPReader.read',
           'pycaption.dfxp.base:DFXPWriter.write', 'pycaption.sami:SAMIReader.read', 'pycaption.sami:SAMIWriter.write',
           'pycaption.microdvd:MicroDVDReader.read', 'pycaption.microdvd:MicroDVDWriter.write']
THOROUGH_SCALE = 2.5        # random budgets of the thorough tier are multiplied by this
REQUIRE = {'hops': 2000, 'chains_len2': 300, 'chains_longer': 50, 'second_passes': 300, 'multi_language_chains': 20,
           'cues_compared': 5000, 'chains_with_microdvd': 100, 'chains_with_sami': 100,
           'chains_on_a_set_with_a_repeated_text': 100}
FORMATS = ['srt', 'webvtt', 'dfxp', 'sami', 'microdvd']
RW = {'srt': ('SRTReader', 'SRTWriter'), 'webvtt': ('WebVTTReader', 'WebVTTWriter'),
      'dfxp': ('DFXPReader', 'DFXPWriter'), 'sami': ('SAMIReader', 'SAMIWriter'),
      'microdvd': ('MicroDVDReader', 'MicroDVDWriter')}


def gen_set(rng, tag, grid, nlang, excl, zero_frame=False, frame1_numeric=False):
    spec = {'langs': [], 'styles': None, 'layout': None}
    for li, lang in enumerate(rng.sample(['en-US', 'fr', 'de', 'es'], nlang)):
        n = rng.randrange(1, 6)
        tl = capsets.timeline(rng, n, below_h=24, grid=grid, sorted_=True, allow_equal_runs=False,
                              min_dur=grid, touching=0.4)
        # strictly increasing starts
        clean = []
        for a, b in tl:
            if clean and a < clean[-1][1]:
                continue
            if clean and a == clean[-1][0]:
                continue
            clean.append((a, b))
        if zero_frame and li == 0:
            clean = [(0, 0)] + [(a, b) for a, b in clean if a > 0]
        if frame1_numeric and li == 0:
            clean = [(40000, 40000)] + [(a, b) for a, b in clean if a > 40000]
        caps = []
        for ci, (a, b) in enumerate(clean):
            nodes, _ = capsets.text_nodes(rng, f'{tag}.{li}.{ci}', nlines=rng.randrange(1, 4), p_meta=0.3,
                                          p_uni=0.15, exclude=excl, empty_lines=rng.choice([0.0, 0.0, 0.3]))
            if frame1_numeric and li == 0 and ci == 0:
                nodes = [['t', rng.choice(['24', '29.97', '30', '7', '23.976'])]]
            elif rng.random() < 0.2:
                # a balanced span that some formats cannot express (colour / class) or can (italics)
                style = rng.choice([{'color': 'red'}, {'class': 'hl'}, {'italics': True}])
                i = rng.randrange(0, len(nodes) + 1)
                j = rng.randrange(i, len(nodes) + 1)
                nodes = nodes[:i] + [['s', True, style]] + nodes[i:j] + [['s', False, style]] + nodes[j:]
            caps.append({'start': a, 'end': b, 'nodes': nodes, 'style': None, 'layout': None})
        if len(caps) >= 2 and not frame1_numeric and rng.random() < 0.3:
            # the same text twice in one language (texts are otherwise uniquely tagged)
            i = rng.randrange(1, len(caps))
            caps[i]['nodes'] = [list(n) for n in caps[rng.randrange(0, i)]['nodes']]
        spec['langs'].append({'lang': lang, 'layout': None, 'captions': caps})
    return spec


def cases(ctx):
    rng = ctx.rng('c08')
    nsets = ctx.budget(120, 4000)
    for i in range(nsets):
        tag = f'V{ctx.shard}.{i}'
        md = gen_set(rng, tag + 'm', 40000, 1, '|')
        ms = gen_set(rng, tag + 's', 1000, 1, '')
        for a, b in itertools.product(FORMATS, repeat=2):
            chain = [a, b]
            yield {'chain': chain, 'set': md if 'microdvd' in chain else ms}
        # multi-language, DFXP / SAMI only
        for chain in (['dfxp', 'sami'], ['sami', 'dfxp'], ['sami', 'sami'], ['dfxp', 'dfxp']):
            if rng.random() < 0.5:
                yield {'chain': chain, 'set': gen_set(rng, tag + 'x', 1000, 2, '')}
        for _ in range(3):
            k = rng.choice([3, 3, 4, 5])
            chain = [rng.choice(FORMATS) for _ in range(k)]
            # a cue of zero duration at time 0 (only where MicroDVD is the first hop: SAMI cannot express it)
            zero = chain[0] == 'microdvd' and rng.random() < 0.2
            yield {'chain': chain, 'set': gen_set(rng, tag + 'c', 40000 if 'microdvd' in chain else 1000, 1,
                                                    '|' if 'microdvd' in chain else '', zero_frame=zero)}
        # a cue inside frame 1 whose text is just a number (must stay a cue, whatever header conventions exist)
        for chain in (['microdvd', 'microdvd'], ['microdvd', 'srt'], ['srt', 'microdvd'], ['dfxp', 'microdvd', 'webvtt']):
            if rng.random() < 0.3:
                yield {'chain': chain, 'set': gen_set(rng, tag + 'n', 40000, 1, '|', frame1_numeric=True)}


def nontrivial(case):
    if len(set(case['chain'])) >= 2:
        return True
    return any(T.has_meta(n[1]) for l in case['set']['langs'] for c in l['captions'] for n in c['nodes'] if n[0] == 't')


def snapshot(cs):
    out = []
    for lang in cs.get_languages():
        caps = []
        for c in cs.get_captions(lang):
            nodes = [dump.node(n) for n in c.nodes]
            caps.append((c.start, c.end, dump.norm_lines(dump.text_lines(nodes))))
        out.append((lang, caps))
    return out


def compare(src, cur, res, sami_seen, by_code):
    """-> failure dict or None"""
    if len(src) != len(cur):
        return {'what': 'number of languages changed', 'expected': [l for l, _ in src], 'got': [l for l, _ in cur]}
    pairs = []
    if by_code:
        d = dict(cur)
        for lang, caps in src:
            if lang not in d:
                return {'what': 'language lost', 'lang': lang, 'got': [l for l, _ in cur]}
            pairs.append((lang, caps, d[lang]))
    else:
        pairs = [(a[0], a[1], b[1]) for a, b in zip(src, cur)]
    for lang, want, got in pairs:
        if len(want) != len(got):
            return {'what': 'number of cues changed', 'lang': lang, 'expected': len(want), 'got': len(got),
                    'got_cues': [(s, e, t) for s, e, t in got][:6]}
        for k, ((ws, we, wt), (gs, ge, gt)) in enumerate(zip(want, got)):
            if wt != gt:
                return {'what': 'cue text changed', 'lang': lang, 'cue': k, 'expected': wt, 'got': gt}
            if int(ws) // res != int(gs) // res:
                return {'what': 'cue start changed', 'lang': lang, 'cue': k, 'expected': ws, 'got': gs, 'res': res}
            final = k == len(want) - 1
            if int(we) // res != int(ge) // res and not (sami_seen and final):
                return {'what': 'cue end changed', 'lang': lang, 'cue': k, 'expected': we, 'got': ge, 'res': res}
    return None


def run_chain(cs, chain, ctx, src, by_code, first_res=1000, sami_seen=False):
    import pycaption
    res = first_res
    for hop, fmt in enumerate(chain):
        rname, wname = RW[fmt]
        if fmt == 'microdvd':
            res = 40000
        if fmt == 'sami':
            sami_seen = True
        ctx.count('hops')
        try:
            out = getattr(pycaption, wname)().write(cs)
            cs = getattr(pycaption, rname)().read(out)
        except Exception as e:
            return None, {'what': 'write or read raised on the chain', 'hop': hop, 'format': fmt,
                          'error': repr(e)[:300]}, res, sami_seen
        f = compare(src, snapshot(cs), res, sami_seen, by_code)
        if f:
            f.update({'hop': hop, 'format': fmt})
            return None, f, res, sami_seen
    return cs, None, res, sami_seen


def check(case, ctx):
    chain = case['chain']
    spec = case['set']
    cs = dump.mk_caption_set(spec)
    src = snapshot(cs)
    by_code = len(spec['langs']) > 1
    ctx.count('chains_len2' if len(chain) == 2 else 'chains_longer')
    if by_code:
        ctx.count('multi_language_chains')
    if 'microdvd' in chain:
        ctx.count('chains_with_microdvd')
    if 'sami' in chain:
        ctx.count('chains_with_sami')
    if any(len({repr(c['nodes']) for c in l['captions']}) < len(l['captions']) for l in spec['langs']):
        ctx.count('chains_on_a_set_with_a_repeated_text')
    ctx.count('cues_compared', sum(len(c) for _, c in src) * len(chain) * 2)
    end1, f, res, sami_seen = run_chain(cs, chain, ctx, src, by_code)
    if f:
        f.update({'chain': chain, 'pass': 1})
        return [f]
    snap1 = snapshot(end1)
    ctx.count('second_passes')
    end2, f, res2, _ = run_chain(end1, chain, ctx, src, by_code, first_res=res, sami_seen=sami_seen)
    if f:
        f.update({'chain': chain, 'pass': 2})
        return [f]
    snap2 = snapshot(end2)
    # no drift: the second pass reproduces the first exactly at the chain's resolution
    f = compare(snap1, snap2, res, False, by_code)
    if f:
        f.update({'chain': chain, 'pass': 'second pass vs first pass', 'what': 'drift: ' + f['what']})
        return [f]
    return []


def classify(case, failure):
    """Known finding: a MicroDVD cue whose start and end both fall in frame 0 is re-read as the fps header."""
    if 'microdvd' in case['chain']:
        caps = case['set']['langs'][0]['captions']
        if caps and caps[0]['start'] < 40000 and caps[0]['end'] < 40000:
            if failure.get('format') == 'microdvd' and (
                    'raised' in failure.get('what', '') or failure.get('what') == 'number of cues changed'):
                return 'microdvd-frame0-cue-read-as-fps-header'
    return None
