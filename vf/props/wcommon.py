"""Shared machinery for the writer-side properties (C02, C03, C07, C08, C09, C11, C12, C13)."""
import re
from fractions import Fraction

from vf.ref import parsers

WRITERS = ['SRTWriter', 'WebVTTWriter', 'DFXPWriter', 'SinglePositioningDFXPWriter',
           'LegacyDFXPWriter', 'SAMIWriter', 'MicroDVDWriter']
MERGING = {'SRTWriter', 'SinglePositioningDFXPWriter', 'LegacyDFXPWriter'}
SINGLE_LANG = {'SRTWriter', 'WebVTTWriter', 'MicroDVDWriter', 'SCCWriter'}


def writer_class(name):
    import pycaption
    from pycaption.dfxp import extras
    if hasattr(extras, name):
        return getattr(extras, name)
    return getattr(pycaption, name)


def make_writer(name, opts=None):
    opts = dict(opts or {})
    if isinstance(opts.get('default_positioning'), dict):
        from vf import dump
        opts['default_positioning'] = dump.mk_layout(opts['default_positioning'])
    # the documented order of the writers' parameters is (relativize, video_width, video_height,
    # fit_to_screen); one configuration in three is passed by position instead of by keyword
    import hashlib
    order = ['relativize', 'video_width', 'video_height', 'fit_to_screen']
    if name not in ('LegacyDFXPWriter', 'SinglePositioningDFXPWriter') and any(k in opts for k in order) \
            and hashlib.md5(repr(sorted(opts.items(), key=lambda kv: kv[0])).encode()).digest()[0] % 3 == 0:
        defaults = {'relativize': True, 'video_width': None, 'video_height': None, 'fit_to_screen': True}
        last = max(i for i, k in enumerate(order) if k in opts)
        args = [opts.get(k, defaults[k]) for k in order[:last + 1]]
        rest = {k: v for k, v in opts.items() if k not in order}
        POSITIONAL[0] += 1
        return writer_class(name)(*args, **rest)
    return writer_class(name)(**opts)


POSITIONAL = [0]        # writers constructed with positional arguments (shown in the evidence of C13)


_DFXP_STAMP = re.compile(r'^(\d{2,}):(\d{2}):(\d{2})\.(\d{3})$')


def parse_output(name, out):
    """-> {'langs': [(lang or None, [cue...])], 'doc': parsed document}.  A cue has
    start/end in microseconds (end None for SAMI) and 'lines'."""
    if name == 'SRTWriter':
        return {'langs': [(None, parsers.parse_srt(out))], 'doc': None}
    if name == 'WebVTTWriter':
        return {'langs': [(None, parsers.parse_webvtt(out))], 'doc': None}
    if name == 'MicroDVDWriter':
        return {'langs': [(None, parsers.parse_microdvd(out))], 'doc': None}
    if name in ('DFXPWriter', 'SinglePositioningDFXPWriter', 'LegacyDFXPWriter'):
        doc = parsers.parse_ttml(out)
        langs = []
        for d in doc['divs']:
            cues = []
            for p in d['ps']:
                cue = dict(p)
                for key in ('begin', 'end'):
                    v = p[key]
                    if v is None or not _DFXP_STAMP.match(v):
                        raise parsers.RefSyntaxError('p %s=%r is not hh:mm:ss.mmm' % (key, v))
                cue['start'] = int(parsers.ttml_time(p['begin']))
                cue['end'] = int(parsers.ttml_time(p['end']))
                cues.append(cue)
            langs.append((d['lang'], cues))
        return {'langs': langs, 'doc': doc}
    if name == 'SAMIWriter':
        doc = parsers.parse_sami(out)
        return {'langs': None, 'doc': doc}
    raise ValueError(name)


def trunc(t, res):
    """Set of acceptable truncations of t (microseconds) to resolution res (microseconds)."""
    if isinstance(t, int):
        return {t // res}
    f = Fraction(t)
    return {max(0, int((f - Fraction(1, 2)) // res)), int(f // res), int((f + Fraction(1, 2)) // res)}


def align(runs, cues, key):
    """runs: [{'times': (set_of_start_units, set_of_end_units), 'min': a, 'max': b}], cues in output
    order, key(cue) -> (start_units, end_units).  Returns a list of cue-index lists per run or None."""
    n, m = len(runs), len(cues)
    keys = [key(c) for c in cues]
    memo = {}

    def rec(i, j):
        if (i, j) in memo:
            return memo[(i, j)]
        if i == n:
            res = [] if j == m else None
            memo[(i, j)] = res
            return res
        r = runs[i]
        res = None
        k = 0
        while j + k <= m:
            if k >= r['min']:
                rest = rec(i + 1, j + k)
                if rest is not None:
                    res = [list(range(j, j + k))] + rest
                    break
            if k == r['max'] or j + k == m:
                break
            s, e = keys[j + k]
            if s not in r['times'][0] or (e is not None and e not in r['times'][1]):
                break
            k += 1
        memo[(i, j)] = res
        return res
    return rec(0, 0)


def caption_runs(caps_dump, res, merging, splitting=False):
    """Groups a dumped caption list into runs for `align`.  merging: consecutive captions with
    identical (start, end) may be written as one cue.  splitting (WebVTT): a caption whose text
    nodes carry k different layouts in sequence may be written as up to k cues."""
    runs = []
    for c in caps_dump:
        times = (trunc(c['start'], res), trunc(c['end'], res))
        maxc = 1
        if splitting:
            layouts = [n[2] for n in c['nodes'] if n[0] == 't']
            maxc = 1 + sum(1 for a, b in zip(layouts, layouts[1:]) if a != b)
        if merging and runs and runs[-1]['exact'] == (c['start'], c['end']):
            runs[-1]['members'].append(c)
            runs[-1]['max'] += maxc
        else:
            runs.append({'times': times, 'exact': (c['start'], c['end']), 'members': [c],
                         'min': 1, 'max': maxc})
    return runs
