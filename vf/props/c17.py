"""C17 — SCC output is structurally valid and re-reads to the same words."""
import re
from fractions import Fraction

from vf import dump
from vf.ref import cea608 as E

ID = 'C17'
RULE = ('caption sets of 1-5 captions x 1-4 lines of 1-80 characters from the CEA-608 basic table (word '
        'lengths 1, 2, 3, 5, 8, 12, 33, 40; optional hyphenated words), with start spacing from just-feasible '
        '(the independently computed number of code words of the next caption + 4 frames) to sparse and the '
        'first start at least its own transmission time. The output is checked structurally (header, line '
        'grammar, odd parity of every byte, PAC rows, <= 32 characters per row via the reference decoder, '
        'timecodes non-negative and non-decreasing, EOC within three frames of the start) and re-read with '
        'SCCReader. Some first captions start shortly after a full minute of timecode. Non-trivial: a line longer than 32, a word longer than 32, or just-feasible spacing.')
ANCHORS = ['pycaption.scc:SCCWriter.write', 'pycaption.scc:SCCWriter._layout_line',
           'pycaption.scc:SCCWriter._text_to_code', 'pycaption.scc:SCCWriter._print_character',
           'pycaption.scc:SCCWriter._maybe_align', 'pycaption.scc:SCCWriter._maybe_space',
           'pycaption.scc:SCCWriter._format_timestamp']
THOROUGH_SCALE = 2        # random budgets of the thorough tier are multiplied by this
REQUIRE = {'sets_written': 100, 'captions_read_back': 200, 'just_feasible_spacings': 30, 'long_words': 30,
           'wrapped_lines': 50, 'bytes_parity_checked': 5000, 'rows_decoded': 300, 'four_or_more_rows': 20,
           'edm_line_inside_next_load_window': 5, 'captions_filling_all_15_rows': 10,
           'lines_stored_as_several_text_nodes': 100}

CW = Fraction(1001000, 30)
ALLOWED = ''.join(ch for code, ch in sorted(E.BASIC.items()) if code != 0x7f and ch != ' ')
WORDLEN = [1, 2, 3, 3, 5, 5, 8, 8, 12, 33, 40]


def gen_word(rng, n, hyphen=False):
    pool = 'abcdefghijklmnopqrstuvwxyzABCDEFGHIJKLMNOPQRSTUVWXYZ0123456789'
    w = ''.join(rng.choice(ALLOWED if rng.random() < 0.15 else pool) for _ in range(n))
    w = w.replace('-', 'x')
    if hyphen and n >= 5:
        k = rng.randrange(2, n - 2)
        w = w[:k] + '-' + w[k + 1:]
    return w


def gen_line(rng, maxlen, hyphens):
    words = []
    total = 0
    target = rng.choice([1, 5, 20, 31, 32, 33, 40, 64, 80])
    while True:
        n = rng.choice(WORDLEN)
        if total + (1 if words else 0) + n > min(target, maxlen):
            break
        words.append(gen_word(rng, n, hyphens and rng.random() < 0.3))
        total += (1 if len(words) > 1 else 0) + n
    if not words:
        words = [gen_word(rng, min(target, 3) or 1)]
    return ' '.join(words)


def wrap(line, width=32):
    """Independent greedy wrap: break at blanks, a word longer than the width fills the current row
    and continues on the following rows."""
    rows = []
    cur = ''
    for w in line.split(' '):
        while True:
            if not cur:
                if len(w) <= width:
                    cur = w
                    break
                rows.append(w[:width])
                w = w[width:]
                continue
            if len(cur) + 1 + len(w) <= width:
                cur += ' ' + w
                break
            if len(w) > width and width - len(cur) - 1 >= 1:
                k = width - len(cur) - 1
                rows.append(cur + ' ' + w[:k])
                w = w[k:]
                cur = ''
                continue
            rows.append(cur)
            cur = ''
    if cur:
        rows.append(cur)
    return rows


def n_words(lines):
    rows = [r for ln in lines for r in wrap(ln)]
    return 8 + sum(2 + (len(r) + 1) // 2 for r in rows), len(rows)


def gen_case(rng, tag):
    n = rng.randrange(1, 6)
    hyphens = rng.random() < 0.25
    caps = []
    for _ in range(n):
        lines = [gen_line(rng, 80, hyphens) for _ in range(rng.randrange(1, 5))]
        if rng.random() < 0.06:
            # a caption that needs 13-15 rows: words of 17-32 characters, one per row
            total = rng.choice([13, 14, 15, 15, 15])
            per = [total // 4 + (1 if k < total % 4 else 0) for k in range(4)]
            lines = [' '.join(gen_word(rng, rng.choice([17, 20, 31, 32])) for _ in range(k)) for k in per]
        # at most 15 rows on the screen
        while n_words(lines)[1] > 15:
            lines.pop()
        caps.append(lines)
    slack_kind = rng.choice(['tight', 'tight', 'loose', 'sparse'])
    t = None
    out = []
    for i, lines in enumerate(caps):
        W, _rows = n_words(lines)
        slack = {'tight': rng.choice([4, 5, 6]), 'loose': rng.randrange(6, 60),
                 'sparse': rng.randrange(60, 3000)}[slack_kind]
        if t is None:
            start = (W + rng.choice([0, 1, 2, 30, 900, 107000, 108000, 220000, 2500000])) * CW
            if rng.random() < 0.2:
                # shortly after a full hour of real time (the non-drop timecode is still in the hour before)
                start = rng.choice([1, 2, 5, 23, 24, 30, 99]) * 3600 * 10 ** 6 + rng.choice([100000, 1500000, 3000000, 3590000, 3700000]) + W * CW
            elif rng.random() < 0.2:
                # shortly after a full minute of timecode: a long caption's load line begins in the minute before
                start = rng.choice([1, 2, 10, 59, 61]) * 1800 * CW + rng.choice([3, 10, 30, 60, 90, 100]) * CW
                start = max(start, W * CW)
        else:
            start = t + (W + slack) * CW
        start = int(start) + 1
        dur = rng.choice([1000000, 1500000, 2500000, 4000000])
        cap = {'start': start, 'end': start + dur, 'lines': lines}
        if rng.random() < 0.2:
            cap['cuts'] = {str(k): sorted({rng.randrange(1, max(2, len(ln))) for _ in range(rng.choice([1, 2]))})
                           for k, ln in enumerate(lines) if len(ln) >= 2 and rng.random() < 0.7}
        out.append(cap)
        t = Fraction(start)
    # ends may not pass the next start
    for a, b in zip(out, out[1:]):
        if a['end'] > b['start']:
            a['end'] = b['start'] if rng.random() < 0.5 else max(a['start'] + 100000, b['start'] - rng.choice([0, 33367, 200000]))
            a['end'] = min(a['end'], b['start'])
    return {'captions': out, 'slack': slack_kind, 'hyphens': hyphens}


def cases(ctx):
    rng = ctx.rng('c17')
    for i in range(ctx.budget(4000, 150000)):
        yield gen_case(rng, f'S{ctx.shard}.{i}')


def nontrivial(case):
    if case['slack'] == 'tight':
        return True
    return any(len(ln) > 32 for c in case['captions'] for ln in c['lines'])


def _odd(b):
    return bin(b).count('1') % 2 == 1


def _match_words(want, got):
    """Words of at most 32 characters must come back intact; longer ones may come back in pieces."""
    j = 0
    for w in want:
        if j >= len(got):
            return False
        if len(w) <= 32:
            if got[j] != w:
                return False
            j += 1
        else:
            acc = ''
            while j < len(got) and len(acc) < len(w) and w.startswith(acc + got[j]):
                acc += got[j]
                j += 1
            if acc != w:
                return False
    return j == len(got)


def check(case, ctx):
    from pycaption import SCCWriter, SCCReader
    spec = {'langs': [{'lang': 'en-US', 'layout': None, 'captions': []}], 'styles': None, 'layout': None}
    for c in case['captions']:
        nodes = []
        for k, ln in enumerate(c['lines']):
            if k:
                nodes.append(['b'])
            cuts = [x for x in c.get('cuts', {}).get(str(k), []) if 0 < x < len(ln)]
            if cuts:
                # one line stored as several adjacent text nodes (the cut may fall inside a word)
                ctx.count('lines_stored_as_several_text_nodes')
                for a, b in zip([0] + cuts, cuts + [len(ln)]):
                    nodes.append(['t', ln[a:b]])
            else:
                nodes.append(['t', ln])
        spec['langs'][0]['captions'].append({'start': c['start'], 'end': c['end'], 'nodes': nodes,
                                             'style': None, 'layout': None})
    ctx.count('sets_written')
    if case['slack'] == 'tight':
        ctx.count('just_feasible_spacings', max(0, len(case['captions']) - 1))
    for c in case['captions']:
        for ln in c['lines']:
            if len(ln) > 32:
                ctx.count('wrapped_lines')
            if any(len(w) > 32 for w in ln.split(' ')):
                ctx.count('long_words')
        if n_words(c['lines'])[1] >= 4:
            ctx.count('four_or_more_rows')
        if n_words(c['lines'])[1] == 15:
            ctx.count('captions_filling_all_15_rows')
    out = SCCWriter().write(dump.mk_caption_set(spec))
    fails = []
    # LF or CR LF: the statement does not fix the line terminator
    lines = out.replace('\r\n', '\n').split('\n')
    if lines[0] != 'Scenarist_SCC V1.0':
        fails.append({'what': 'missing Scenarist header', 'first_line': lines[0]})
    body = [ln for ln in lines[1:] if ln.strip()]
    parsed = []
    for ln in body:
        m = re.fullmatch(r'(\d\d):(\d\d):(\d\d)([:;])(\d\d)\t((?:[0-9a-f]{4} )*[0-9a-f]{4}) ?', ln)
        if not m:
            fails.append({'what': 'line is not HH:MM:SS:FF<TAB>four-hex-digit words', 'line': ln[:200]})
            continue
        h, mi, s, sep, ff = m.group(1, 2, 3, 4, 5)
        frame = ((int(h) * 60 + int(mi)) * 60 + int(s)) * 30 + int(ff)
        if int(mi) > 59 or int(s) > 59 or int(ff) > 29:
            fails.append({'what': 'timecode field out of range', 'line': ln[:40]})
        parsed.append((frame, m.group(6).split(' '), sep))
    if fails:
        return fails[:3]
    prev = -1
    for frame, ws, sep in parsed:
        if frame < prev:
            fails.append({'what': 'timecodes decrease', 'frames': [f for f, _, _ in parsed]})
            break
        prev = frame
        for w in ws:
            for b in (int(w[:2], 16), int(w[2:], 16)):
                ctx.count('bytes_parity_checked')
                if not _odd(b):
                    fails.append({'what': 'byte without odd parity', 'word': w})
    if fails:
        return fails[:3]
    # decode with the reference decoder: rows, row lengths, EOC instants
    dec = E.Decoder()
    frames = []
    for frame, ws, sep in parsed:
        for k, w in enumerate(ws):
            frames.append(frame + k)
            b1, b2 = int(w[:2], 16) & 0x7f, int(w[2:], 16) & 0x7f
            if 0x10 <= b1 <= 0x17 and b2 >= 0x40 and (b1, 0x60 if b2 >= 0x60 else 0x40) not in E._ROW_OF:
                fails.append({'what': 'preamble address code for a row outside 1-15', 'word': w})
            dec.feed(w)
    shows = [ev for ev in dec.events if ev[0] == 'show' and ev[2]]
    if len(shows) != len(case['captions']):
        fails.append({'what': 'number of displayed screens differs from the number of captions',
                      'expected': len(case['captions']), 'got': len(shows), 'output': out[:1500]})
        return fails[:3]
    scale = Fraction(1001, 1000)
    for ev, c in zip(shows, case['captions']):
        rows = ev[2]
        ctx.count('rows_decoded', len(rows))
        for r, (col, cells) in rows.items():
            text = ''.join(x.ch if x else ' ' for x in cells).rstrip()
            # the decoder clips at column 32; count what was transmitted instead
        t_eoc = Fraction(frames[ev[1]], 30) * scale * 10 ** 6
        if abs(t_eoc - c['start']) > 3 * CW + 1:
            fails.append({'what': 'caption does not become visible within three frames of its start',
                          'start': c['start'], 'eoc_at': float(t_eoc), 'frames_off': float((t_eoc - c['start']) / CW)})
    # transmitted characters per row (between two PACs / up to the EDM) must not exceed 32
    for frame, ws, sep in parsed:
        count = None
        for w in ws:
            b1, b2 = int(w[:2], 16) & 0x7f, int(w[2:], 16) & 0x7f
            if 0x10 <= b1 <= 0x1f:
                if b2 >= 0x40:
                    if count is not None and count > 32:
                        fails.append({'what': 'more than 32 characters sent to one row', 'count': count})
                    count = 0
                elif count is not None and b1 in (0x11, 0x12, 0x13) and b2 >= 0x30:
                    count += 1
                elif b1 == 0x14 and count is not None and count > 32:
                    fails.append({'what': 'more than 32 characters sent to one row', 'count': count})
            elif count is not None:
                count += (1 if b1 >= 0x20 else 0) + (1 if b2 >= 0x20 else 0)
    # the EDM line of caption i lies inside the load window of caption i+1?
    for a, b in zip(case['captions'], case['captions'][1:]):
        W, _ = n_words(b['lines'])
        if b['start'] - W * CW <= a['end'] < b['start'] - 3 * CW:
            ctx.count('edm_line_inside_next_load_window')
    # read back
    try:
        cs = SCCReader().read(out)
    except Exception as e:
        fails.append({'what': 'SCCReader cannot read the SCCWriter output', 'error': repr(e)[:400], 'output': out[:1500]})
        return fails[:3]
    caps = list(cs.get_captions('en-US'))
    if len(caps) != len(case['captions']):
        fails.append({'what': 'reading back does not yield one caption per input caption',
                      'expected': len(case['captions']), 'got': len(caps),
                      'got_text': [c.get_text() for c in caps][:6], 'output': out[:1500]})
        return fails[:3]
    for got, c in zip(caps, case['captions']):
        ctx.count('captions_read_back')
        want_words = [w for ln in c['lines'] for w in ln.split(' ') if w]
        got_text = got.get_text()
        got_words = got_text.split()
        if not _match_words(want_words, got_words):
            fails.append({'what': 'words differ after reading the SCC output back', 'expected': want_words,
                          'got': got_words, 'hyphens': case['hyphens']})
        for ln in got_text.split('\n'):
            if len(ln) > 32:
                fails.append({'what': 'row longer than 32 columns read back', 'row': ln})
    return fails[:3]


def classify(case, failure):
    return None
