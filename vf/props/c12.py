"""C12 — positioning survives DFXP round trips and maps faithfully to WebVTT settings."""
import copy
from fractions import Fraction

from vf import dump
from vf.gen import capsets, geom
from vf.props import wcommon as W
from vf.ref import geometry as R, parsers

ID = 'C12'
RULE = ('caption sets with percentage layouts (origin / extent / padding values from a grid, all 6x4 alignment '
        'pairs with either part possibly absent, padding slots possibly absent) attached at language, '
        'caption, span and bare-text-node level; (a) DFXPWriter (relativize x fit_to_screen) then DFXPReader: every uniquely tagged text keeps its effective layout, '
        'absent alignment parts becoming start / after, extent fitted when fit_to_screen is on; (b) '
        'WebVTTWriter: one cue per run of text nodes with one layout, equal times, settings = the reference '
        'mapping; (c) WebVTT -> WebVTT keeps cue settings verbatim. Blank layouts (all parts absent) and WebVTT captions whose last nodes inherit their layout are included. Non-trivial: >= 2 distinct effective '
        'layouts in the set (a, b) or a cue with settings (c).')
ANCHORS = ['pycaption.dfxp.base:RegionCreator._collect_unique_regions',
           'pycaption.dfxp.base:RegionCreator._create_unique_regions',
           'pycaption.dfxp.base:RegionCreator.get_positioning_info',
           'pycaption.dfxp.base:_convert_layout_to_attributes', 'pycaption.dfxp.base:_create_external_alignment',
           'pycaption.dfxp.base:LayoutAwareDFXPParser._pre_order_visit',
           'pycaption.dfxp.base:LayoutAwareDFXPParser._determine_region_id',
           'pycaption.dfxp.base:LayoutInfoScraper.scrape_positioning_info',
           'pycaption.dfxp.base:LayoutInfoScraper._find_attribute',
           'pycaption.webvtt:WebVTTWriter._convert_positioning', 'pycaption.webvtt:WebVTTWriter._group_cues_by_layout',
           'pycaption.webvtt:WebVTTWriter._convert_caption', 'pycaption.webvtt:WebVTTReader._parse_timing_line']
THOROUGH_SCALE = 3        # random budgets of the thorough tier are multiplied by this
REQUIRE = {'dfxp_roundtrips': 100, 'webvtt_writes': 100, 'webvtt_roundtrips': 30, 'texts_compared': 500,
           'level_lang': 20, 'level_caption': 20, 'level_span': 20, 'level_node': 10,
           'webvtt_split_captions': 20, 'webvtt_settings_compared': 200, 'alignment_pairs_seen': 15,
           'padding_with_start_ne_end': 20, 'webvtt_language_level_only': 10,
           'webvtt_roundtrips_with_reader_options': 20, 'dfxp_sets_with_blank_layouts': 100,
           'webvtt_captions_whose_last_nodes_inherit_their_layout': 100}


def rand_pct_layout(rng, need_origin=False):
    vals = [0, 0.5, 0.25, 5, 10, 12.5, 20, 25, 33.33, 40, 50]
    lay = {'origin': None, 'extent': None, 'padding': None, 'alignment': None}
    if need_origin or rng.random() < 0.75:
        x, y = rng.choice(vals), rng.choice(vals)
        lay['origin'] = [[float(x), '%'], [float(y), '%']]
        if rng.random() < 0.7:
            w = rng.choice([v for v in vals if 0 < v <= 90 - x])
            h = rng.choice([v for v in vals if 0 < v <= 95 - y])
            if rng.random() < 0.25:
                # reaching beyond the safe area (fit_to_screen has to clamp): right edge in (90, 100]
                w = rng.choice([90 - x + 0.5, 90 - x + 3, 95 - x, 100 - x])
                h = rng.choice([h, 95 - y + 2, 100 - y])
            lay['extent'] = [[float(w), '%'], [float(h), '%']]
    elif rng.random() < 0.5:
        lay['extent'] = [[float(rng.choice(vals[1:])), '%'], [float(rng.choice(vals[1:])), '%']]
    if rng.random() < 0.5:
        pv = [0, 0.5, 0.75, 1, 2.5, 3, 5, 7]
        lay['padding'] = [None if rng.random() < 0.15 else [float(rng.choice(pv)), '%'] for _ in range(4)]
        if all(p is None for p in lay['padding']):
            lay['padding'][0] = [1.0, '%']
    if rng.random() < 0.7:
        lay['alignment'] = [rng.choice(geom.HALIGN + [None]), rng.choice(geom.VALIGN + [None])]
        if lay['alignment'] == [None, None]:
            lay['alignment'] = None
    if not any(lay.values()):
        lay['alignment'] = ['center', 'top']
    return lay


def cases(ctx):
    rng = ctx.rng('c12')
    for i in range(ctx.budget(8000, 250000)):
        tag = f'P{ctx.shard}.{i}'
        r = rng.random()
        if r < 0.45:
            # the statement speaks of language, caption and node level: no set-level layouts
            spec = capsets.rich_set(rng, tag, layout_fn=rand_pct_layout, weird_names=False, p_layout=0.5,
                                    nlang=rng.choice([1, 1, 2]), levels=('lang', 'caption', 'node', 'span'))
            _strip_styles(spec)
            if rng.random() < 0.3:
                # layouts that are present but blank (every part absent) count as no layout: the next level shows
                blank = lambda: {'origin': None, 'extent': None, 'padding': None, 'alignment': None}
                for l in spec['langs']:
                    for c in l['captions']:
                        if c.get('layout') is None and rng.random() < 0.6:
                            c['layout'] = blank()
                            spec['blank_layouts'] = True
                        for n in c['nodes']:
                            if n[0] == 't' and len(n) == 2 and rng.random() < 0.3:
                                n.append(blank())
                                spec['blank_layouts'] = True
            yield {'kind': 'dfxp', 'set': spec,
                   'opts': {'relativize': rng.random() < 0.7, 'fit_to_screen': rng.random() < 0.5}}
        elif r < 0.85:
            fn = lambda g: rand_pct_layout(g, need_origin=True)
            if rng.random() < 0.2:
                # layout at language level only, plain write() without lang=
                spec = capsets.rich_set(rng, tag, layout_fn=fn, weird_names=False, p_layout=1.0, nlang=1,
                                        levels=('lang',))
            else:
                spec = capsets.rich_set(rng, tag, layout_fn=fn, weird_names=False, p_layout=0.6, nlang=1,
                                        levels=('lang', 'caption', 'node', 'span'))
            _strip_styles(spec)
            _webvtt_shape(spec, rng, fn)
            yield {'kind': 'webvtt', 'set': spec,
                   'opts': {'relativize': rng.random() < 0.8, 'fit_to_screen': rng.random() < 0.6},
                   'lang_arg': rng.random() < 0.3}
        else:
            n = rng.randrange(1, 6)
            cues = []
            t = 1000000
            for k in range(n):
                settings = rng.choice(['', 'align:left', 'position:10% line:20% size:50%',
                                       'line:0 position:20%,line-left size:60% align:start',
                                       'vertical:rl line:5', 'align:center size:33.33%', 'region:fred',
                                       'align:left\tposition:10%', 'line:20%  size:50%', 'position:5%\t line:1'])
                cues.append({'start': t, 'end': t + 1500000, 'settings': settings, 'text': f'{tag}.{k} hello'})
                t += 2000000
            yield {'kind': 'vtt2vtt', 'cues': cues,
                   'reader_kwargs': rng.choice([{}, {}, {'ignore_timing_errors': False}, {'ignore_timing_errors': True},
                                                {'time_shift_milliseconds': 0}])}


def _strip_styles(spec):
    """C12 is about positioning: style dictionaries are reduced to harmless ones (text-align in a style
    would legitimately override a region's alignment)."""
    spec['styles'] = None
    for l in spec['langs']:
        for c in l['captions']:
            c['style'] = None
            for n in c['nodes']:
                if n[0] == 's':
                    n[2] = {'italics': True}


def _webvtt_shape(spec, rng, fn):
    """WebVTT splits a caption at layout changes between TEXT nodes: make multi-layout captions
    well-defined (every text node of such a caption carries a layout; style nodes dropped)."""
    for l in spec['langs']:
        for c in l['captions']:
            texts = [n for n in c['nodes'] if n[0] == 't']
            if any(len(n) > 2 and n[2] for n in texts) or rng.random() < 0.25:
                c['nodes'] = [n for n in c['nodes'] if n[0] != 's']
                lays = [fn(rng) for _ in range(rng.choice([1, 2, 2, 3]))]
                k = 0
                for n in c['nodes']:
                    if n[0] == 't':
                        del n[2:]
                        n.append(lays[min(k * len(lays) // max(1, len(texts)), len(lays) - 1)])
                        k += 1
                    elif n[0] == 'b':
                        del n[1:]
                if len(texts) >= 2 and rng.random() < 0.3:
                    # the last text nodes have no layout of their own (absent, or present but blank) and fall
                    # back to the caption's / the language's: they are a group - a cue - of their own
                    cut = rng.randrange(1, len(texts))
                    blank = rng.random() < 0.4
                    for n in [n for n in c['nodes'] if n[0] == 't'][cut:]:
                        del n[2:]
                        if blank:
                            n.append({'origin': None, 'extent': None, 'padding': None, 'alignment': None})
                    if rng.random() < 0.7:
                        c['layout'] = fn(rng)
                    c['inheriting_tail'] = True


def _eff(node_lay, cap, lang, set_lay, use_set=True):
    for lay in (node_lay, cap.get('layout'), lang.get('layout'), set_lay if use_set else None):
        if lay and any(lay.get(k) for k in ('origin', 'extent', 'padding', 'alignment')):
            return lay
    return None


def nontrivial(case):
    if case['kind'] == 'vtt2vtt':
        return any(c['settings'] for c in case['cues'])
    seen = set()
    spec = case['set']
    for l in spec['langs']:
        for c in l['captions']:
            for n in c['nodes']:
                if n[0] == 't':
                    seen.add(repr(_eff(n[2] if len(n) > 2 else None, c, l, spec.get('layout'))))
    return len(seen) >= 2


def _norm_layout(lay):
    """Layout spec -> comparable dict of Fractions, with the DFXP defaults for absent alignment parts."""
    if lay is None:
        lay = {}
    rel = R.as_fractions(lay) if any(lay.get(k) for k in ('origin', 'extent', 'padding')) else \
        {'origin': None, 'extent': None, 'padding': None}
    al = lay.get('alignment') or [None, None]
    rel['alignment'] = [al[0] or 'start', al[1] or 'bottom']
    return rel


def _from_dump(d):
    """dump.layout(...) of a read-back Layout -> same shape as _norm_layout."""
    if d is None:
        return {'origin': None, 'extent': None, 'padding': None, 'alignment': ['start', 'bottom']}
    def sz(s):
        return Fraction(s[0])
    out = {'origin': [sz(x) for x in d['origin']] if d['origin'] else None,
           'extent': [sz(x) for x in d['extent']] if d['extent'] else None,
           'padding': [sz(x) for x in d['padding']] if d['padding'] else None}
    al = d['alignment'] or [None, None]
    out['alignment'] = [al[0] or 'start', al[1] or 'bottom']
    return out


def _same(a, b):
    for key in ('origin', 'extent', 'padding'):
        x, y = a.get(key), b.get(key)
        if (x is None) != (y is None):
            return False
        if x is not None and any(abs(p - q) > R.HALF_CENT for p, q in zip(x, y)):
            return False
    return a['alignment'] == b['alignment']


def check(case, ctx):
    import pycaption
    if case['kind'] == 'vtt2vtt':
        doc = 'WEBVTT\n\n'
        for c in case['cues']:
            doc += '%s --> %s%s\n%s\n\n' % (_ts(c['start']), _ts(c['end']),
                                            (' ' + c['settings']) if c['settings'] else '', c['text'])
        rk = case.get('reader_kwargs') or {}
        cs = pycaption.WebVTTReader(**rk).read(doc)
        out = pycaption.WebVTTWriter().write(cs)
        ctx.count('webvtt_roundtrips')
        if rk:
            ctx.count('webvtt_roundtrips_with_reader_options')
        cues = parsers.parse_webvtt(out)
        fails = []
        if len(cues) != len(case['cues']):
            return [{'what': 'WebVTT -> WebVTT changed the number of cues', 'got': len(cues)}]
        for c, g in zip(case['cues'], cues):
            if g['settings_raw'] != c['settings']:
                fails.append({'what': 'cue settings not written back verbatim', 'expected': c['settings'],
                              'got': g['settings_raw']})
        return fails[:3]
    spec = case['set']
    cs = dump.mk_caption_set(spec)
    fails = []
    levels = set()
    if spec.get('layout'):
        levels.add('set')
    pairs = set()
    for l in spec['langs']:
        if l.get('layout'):
            levels.add('lang')
        for c in l['captions']:
            if c.get('layout'):
                levels.add('caption')
            in_span = False
            for n in c['nodes']:
                if n[0] == 's':
                    in_span = bool(n[1]) and len(n) > 3 and bool(n[3])
                    if len(n) > 3 and n[3]:
                        levels.add('span')
                if n[0] == 't' and len(n) > 2 and n[2] and not in_span:
                    levels.add('node')
                lay = n[2] if n[0] == 't' and len(n) > 2 else None
                for src in (lay, c.get('layout'), l.get('layout')):
                    if src and src.get('alignment'):
                        pairs.add(tuple(src['alignment']))
                    if src and src.get('padding') and src['padding'][2] != src['padding'][3]:
                        ctx.count('padding_with_start_ne_end')
    for lv in levels:
        ctx.count('level_' + lv)
    ctx.counters['alignment_pairs_seen'] = max(ctx.counters.get('alignment_pairs_seen', 0), 0) + len(pairs)
    if case['kind'] == 'dfxp':
        ctx.count('dfxp_roundtrips')
        if spec.get('blank_layouts'):
            ctx.count('dfxp_sets_with_blank_layouts')
        try:
            out = W.make_writer('DFXPWriter', case['opts']).write(cs)
            back = pycaption.DFXPReader().read(out)
        except Exception as e:
            return [{'what': 'DFXP write/read raised', 'error': repr(e)[:400]}]
        bd = dump.caption_set(back)
        got = {}
        by_lang = {l['lang']: l for l in bd['langs']}
        for l in bd['langs']:
            for c in l['captions']:
                for n in c['nodes']:
                    if n[0] == 't':
                        eff = n[2] or c['layout'] or l['layout'] or bd['layout']
                        got[dump.norm_line(n[1])] = eff
        for l in spec['langs']:
            for c in l['captions']:
                span_lay = None
                for n in c['nodes']:
                    if n[0] == 's':
                        span_lay = (n[3] if len(n) > 3 else None) if n[1] else None
                    if n[0] != 't' or not n[1].strip():
                        continue
                    node_lay = n[2] if len(n) > 2 else None
                    eff = _eff(node_lay, c, l, spec.get('layout'))
                    want = _norm_layout(eff)
                    alts = [want]
                    if case['opts']['fit_to_screen'] and eff and eff.get('origin'):
                        fitted = R.fit({k: want[k] for k in ('origin', 'extent', 'padding')})
                        fw = dict(want)
                        fw['extent'] = fitted['extent']
                        # the node / caption level is fitted; language / set level either way (C13 finding)
                        level_of_eff = 'node' if node_lay and eff is node_lay else \
                            'caption' if eff is c.get('layout') else 'outer'
                        alts = [fw] if level_of_eff != 'outer' else [fw, want]
                    key = dump.norm_line(n[1])
                    ctx.count('texts_compared')
                    if key not in got:
                        fails.append({'what': 'text lost in the DFXP round trip', 'text': key})
                        continue
                    have = _from_dump(got[key])
                    if not any(_same(a, have) for a in alts):
                        bare = node_lay is not None and not (span_lay and span_lay == node_lay)
                        fails.append({'what': 'effective layout changed by the DFXP round trip', 'text': key,
                                      'expected': _show(alts[0]), 'got': _show(have),
                                      'bare_text_node_with_own_layout': bare,
                                      'enclosing_span_layout': _show(_norm_layout(span_lay)) if span_lay else None,
                                      'caption_level_layout': _show(_norm_layout(_eff(None, c, l, spec.get('layout')))),
                                      'opts': case['opts']})
        return fails[:4]
    # WebVTT mapping
    ctx.count('webvtt_writes')
    if any(c.get('inheriting_tail') for l in spec['langs'] for c in l['captions']):
        ctx.count('webvtt_captions_whose_last_nodes_inherit_their_layout')
    lang = spec['langs'][0]
    if not any(c.get('layout') or any(len(n) > 2 and n[2] for n in c['nodes'] if n[0] == 't')
               for c in lang['captions']) and lang.get('layout'):
        ctx.count('webvtt_language_level_only')
    kw = {'lang': lang['lang']} if case.get('lang_arg') else {}
    try:
        out = W.make_writer('WebVTTWriter', case['opts']).write(cs, **kw)
    except Exception as e:
        return [{'what': 'WebVTTWriter raised', 'error': repr(e)[:400]}]
    cues = parsers.parse_webvtt(out)
    want_cues = []
    for c in lang['captions']:
        groups = []
        for n in c['nodes']:
            if n[0] != 't':
                continue
            nl = n[2] if len(n) > 2 else None
            if groups and groups[-1][0] == nl:
                groups[-1][1].append(n[1])
            else:
                groups.append((nl, [n[1]]))
        if len(groups) > 1:
            ctx.count('webvtt_split_captions')
        for nl, texts in groups:
            want_cues.append({'start': c['start'], 'end': c['end'], 'layout': _eff(nl, c, lang, None, use_set=False),
                              'texts': texts})
    if len(cues) != len(want_cues):
        return [{'what': 'number of WebVTT cues differs from the number of layout groups',
                 'expected': len(want_cues), 'got': len(cues), 'opts': case['opts']}]
    for w, g in zip(want_cues, cues):
        if (g['start'] // 1000, g['end'] // 1000) != (w['start'] // 1000, w['end'] // 1000):
            fails.append({'what': 'cues of one caption do not share its times', 'got': [g['start'], g['end']]})
        # each cue carries the text of its own layout group, nothing of the groups before it
        squash = lambda parts: ''.join(ch for p in parts for ch in p if not ch.isspace())
        if squash(g['lines']) != squash(w['texts']):
            fails.append({'what': 'a cue does not carry exactly the text of its layout group',
                          'expected': w['texts'], 'got': g['lines']})
        ctx.count('webvtt_cue_texts_compared')
        settings = {}
        for s in g['settings']:
            k, _, v = s.partition(':')
            settings[k] = v
        ctx.count('webvtt_settings_compared')
        lay = w['layout']
        if lay is None:
            exp = {}
        else:
            rel = R.as_fractions(lay)
            if case['opts']['fit_to_screen']:
                rel = R.fit(rel)
            exp = R.webvtt_expected(rel, lay.get('alignment'))
        ok = set(exp) == set(settings)
        if ok:
            for k, v in exp.items():
                if k == 'align':
                    ok = ok and settings[k] == v
                else:
                    gv = R.parse_pct(settings[k])
                    ok = ok and gv is not None and R.close(gv, v)
        if not ok:
            fails.append({'what': 'WebVTT cue settings differ from the reference mapping of the effective layout',
                          'expected': {k: (float(v) if k != 'align' else v) for k, v in exp.items()},
                          'got': settings, 'layout': lay, 'opts': case['opts'], 'lang_arg': case.get('lang_arg')})
    return fails[:4]


def _show(n):
    return {k: ([float(x) for x in v] if k != 'alignment' and v else v) for k, v in n.items()}


def _ts(us):
    ms = us // 1000
    return '%02d:%02d:%02d.%03d' % (ms // 3600000, (ms // 60000) % 60, (ms // 1000) % 60, ms % 1000)


def classify(case, failure):
    """Known finding: DFXPWriter ignores the layout of a TEXT node that is not inside a span carrying
    that layout; the text then shows the caption-level layout."""
    if failure.get('what') == 'effective layout changed by the DFXP round trip' \
            and failure.get('bare_text_node_with_own_layout'):
        got = failure['got']
        for other in (failure.get('enclosing_span_layout'), failure['caption_level_layout']):
            if other and all(got[k] == other[k] for k in ('origin', 'padding', 'alignment')):
                return 'dfxp-bare-text-node-layout-ignored'
    return None
