"""C02 — writing preserves every cue's start and end instant."""
from vf import dump
from vf.gen import capsets, geom
from vf.props import wcommon as W
from vf.ref import parsers

ID = 'C02'
RULE = ('API-built caption sets (1-6 captions per language, 1-3 languages for the multi-language writers; '
        'integer-microsecond instants on the carry-boundary ladder below 24 h, or float instants of the '
        'form k*1001/30 ms as the SCC reader produces; runs of identical (start,end); captions whose text '
        'nodes carry two layouts; sorted non-overlapping cues, plus unsorted/overlapping single-language '
        'sets) x the seven writers x option combinations. The output is parsed by the independent parser '
        'of its format and aligned with the captions by a matching that allows exactly the groupings the '
        'statement allows. Non-trivial: a carry (ms>=999, s=59, m=59), hour>=1, a float time, an '
        'identical-timespan run or a multi-layout caption occurs.')
ANCHORS = ['pycaption.base:Caption._format_timestamp', 'pycaption.base:Caption.format_start',
           'pycaption.base:Caption.format_end', 'pycaption.webvtt:WebVTTWriter._timestamp',
           'pycaption.sami:SAMIWriter._recreate_p_tag', 'pycaption.sami:SAMIWriter._recreate_sync',
           'pycaption.sami:SAMIWriter._recreate_blank_tag', 'pycaption.sami:SAMIWriter._find_closest_sync',
           'pycaption.microdvd:MicroDVDWriter._microtoframes', 'pycaption.srt:SRTWriter._recreate_lang',
           'pycaption.base:merge_concurrent_captions']
THOROUGH_SCALE = 3        # random budgets of the thorough tier are multiplied by this
REQUIRE = {'writes_' + w: 30 for w in W.WRITERS}
REQUIRE.update({'sami_sequence_checks': 20, 'sami_multiset_checks': 5, 'float_time_sets': 20, 'runs_present': 20, 'sami_blank_syncs_required': 20,
                'sami_blank_syncs_forbidden': 10, 'sami_multi_language': 10, 'cues_compared': 1000,
                'webvtt_split_captions': 5, 'captions_with_empty_text_only': 20,
                'sets_with_an_additional_empty_language': 50})

RES = {'SRTWriter': 1000, 'WebVTTWriter': 1000, 'DFXPWriter': 1000, 'SinglePositioningDFXPWriter': 1000,
       'LegacyDFXPWriter': 1000, 'SAMIWriter': 1000, 'MicroDVDWriter': 40000}


def gen_case(rng, tag, writer):
    multi = writer not in W.SINGLE_LANG
    nlang = rng.choice([1, 1, 2, 3]) if multi else 1
    float_times = rng.random() < 0.2
    sorted_ = True
    if rng.random() < 0.15 and nlang == 1:
        sorted_ = False
    spec = {'langs': [], 'styles': None, 'layout': None}
    for li, lang in enumerate(rng.sample(capsets.LANGS, nlang)):
        n = rng.randrange(1, 7)
        tl = capsets.timeline(rng, n, below_h=24, grid=1, sorted_=sorted_,
                              allow_equal_runs=(writer != 'SAMIWriter' or rng.random() < 0.3))
        if float_times:
            # SCC-like instants: k frames of 1001/30 ms
            tl2 = []
            for a, b in tl:
                ka, kb = a // 33367, max(a // 33367, b // 33367)
                tl2.append((ka * 1001000 / 30.0, kb * 1001000 / 30.0))
            tl = tl2
        caps = []
        for ci, (a, b) in enumerate(tl):
            nodes, _ = capsets.text_nodes(rng, f'{tag}.{li}.{ci}', p_meta=0.0, p_uni=0.05)
            if writer == 'WebVTTWriter' and rng.random() < 0.2 and len([x for x in nodes if x[0] == 't']) > 1:
                l1 = geom.pct_layout(rng)
                l2 = geom.pct_layout(rng)
                seen = 0
                for x in nodes:
                    if x[0] == 't':
                        x.append(l1 if seen == 0 else l2)
                        seen += 1
            if writer != 'SAMIWriter' and rng.random() < 0.03:
                # a caption whose only text node is empty still is a timed cue
                nodes = rng.choice([[['t', '']], [['t', ''], ['t', '']], [['s', True, {'color': 'red'}], ['t', ''],
                                                                             ['s', False, {'color': 'red'}]]])
            caps.append({'start': a, 'end': b, 'nodes': nodes, 'style': None, 'layout': None})
        spec['langs'].append({'lang': lang, 'layout': None, 'captions': caps})
    empty_lang = False
    if writer not in ('SRTWriter', 'MicroDVDWriter') and rng.random() < 0.15:
        # a language without captions next to the written one(s) takes nothing away from them (the SRT and
        # MicroDVD writers join all languages into one document, which is outside this check's SRT grammar)
        used = {l['lang'] for l in spec['langs']}
        spec['langs'].append({'lang': rng.choice([x for x in capsets.LANGS if x not in used]), 'layout': None,
                              'captions': []})
        empty_lang = True
    opts = {}
    if writer != 'LegacyDFXPWriter':
        if rng.random() < 0.3:
            opts['relativize'] = rng.choice([True, False])
        if rng.random() < 0.3:
            opts['fit_to_screen'] = rng.choice([True, False])
        if rng.random() < 0.3:
            opts.update(video_width=640, video_height=360)
    if writer == 'DFXPWriter' and rng.random() < 0.2:
        opts['write_inline_positioning'] = True
    return {'writer': writer, 'opts': opts, 'set': spec, 'float': float_times, 'sorted': sorted_,
            'empty_lang': empty_lang}


def cases(ctx):
    rng = ctx.rng('c02')
    for i in range(ctx.budget(10000, 400000)):
        yield gen_case(rng, f'W{ctx.shard}.{i}', W.WRITERS[i % len(W.WRITERS)])


def _has_carry(t):
    t = int(t)
    ms = (t // 1000) % 1000
    s = (t // 10 ** 6) % 60
    m = (t // (60 * 10 ** 6)) % 60
    return ms >= 999 or s == 59 or m == 59 or t >= 3600 * 10 ** 6


def nontrivial(case):
    if case['float']:
        return True
    for l in case['set']['langs']:
        caps = l['captions']
        for c in caps:
            if _has_carry(c['start']) or _has_carry(c['end']):
                return True
            if any(len(n) > 2 and n[0] == 't' for n in c['nodes']):
                return True
        for x, y in zip(caps, caps[1:]):
            if (x['start'], x['end']) == (y['start'], y['end']):
                return True
    return False


def check(case, ctx):
    writer = case['writer']
    cs = dump.mk_caption_set(case['set'])
    before = dump.caption_set(cs)
    ctx.count('writes_' + writer)
    ctx.count('captions_with_empty_text_only', sum(1 for l in before['langs'] for c in l['captions']
                                                   if not ''.join(n[1] for n in c['nodes'] if n[0] == 't')))
    if case['float']:
        ctx.count('float_time_sets')
    if case.get('empty_lang'):
        ctx.count('sets_with_an_additional_empty_language')
    try:
        out = W.make_writer(writer, case['opts']).write(cs)
    except Exception as e:
        return [{'what': 'writer raised', 'writer': writer, 'error': repr(e)[:500]}]
    try:
        parsed = W.parse_output(writer, out)
    except parsers.RefSyntaxError as e:
        return [{'what': 'output is not well-formed for its format (timestamp / structure)', 'writer': writer,
                 'error': str(e)[:300], 'output_head': out[:600]}]
    fails = []
    res = RES[writer]
    if writer == 'SAMIWriter':
        return _check_sami(case, before, parsed['doc'], ctx, out)
    out_langs = parsed['langs']
    want_langs = before['langs'] if writer not in W.SINGLE_LANG else before['langs'][:1]
    if len(out_langs) != len(want_langs):
        return [{'what': 'number of languages written differs', 'writer': writer,
                 'expected': len(want_langs), 'got': len(out_langs)}]
    if all(ol is not None for ol, _ in out_langs) and \
            sorted(str(ol) for ol, _ in out_langs) == sorted(l['lang'] for l in want_langs) and \
            len({l['lang'] for l in want_langs}) == len(want_langs):
        # labelled languages are matched by their label: the order of the languages is C14's clause
        by_label = {ol: cues for ol, cues in out_langs}
        out_langs = [(l['lang'], by_label[l['lang']]) for l in want_langs]
    for (olang, cues), l in zip(out_langs, want_langs):
        if olang is not None and olang != l['lang']:
            fails.append({'what': 'language label differs', 'expected': l['lang'], 'got': olang})
        runs = W.caption_runs(l['captions'], res, merging=writer in W.MERGING,
                              splitting=writer == 'WebVTTWriter')
        if any(len(r['members']) > 1 for r in runs):
            ctx.count('runs_present')
        if any(r['max'] > len(r['members']) for r in runs):
            ctx.count('webvtt_split_captions')
        if writer == 'MicroDVDWriter':
            key = lambda c: (c['start_frame'], c['end_frame'])
            for r in runs:
                pass
        else:
            key = lambda c: (c['start'] // res, c['end'] // res)
        asg = W.align(runs, cues, key)
        ctx.count('cues_compared', len(cues))
        if asg is None:
            fails.append({'what': 'written cues do not match the captions (count, order or truncated times)',
                          'writer': writer, 'lang': l['lang'],
                          'expected(start,end units)': [[sorted(r['times'][0]), sorted(r['times'][1]),
                                                        len(r['members'])] for r in runs][:10],
                          'got': [key(c) for c in cues][:12], 'resolution_us': res})
    return fails


def _check_sami(case, before, doc, ctx, out):
    """Per language: every cue is a non-blank <P> in a sync at floor(start ms); a blank <P> at
    floor(end ms) exists for every cue but the last whose successor does not start at that
    millisecond; nothing else is written.  For languages whose cues are strictly sorted and
    non-overlapping the document order of the language's paragraphs must be exactly that sequence;
    otherwise (overlapping / unsorted / identical timespans) only the multiset is compared."""
    import collections
    fails = []
    seq = {}
    for s in doc['syncs']:
        for p in s['ps']:
            seq.setdefault(p['lang'], []).append((s['start_ms'], p['blank'], p['lines']))
    if len(before['langs']) > 1:
        ctx.count('sami_multi_language')
    # document order is only meaningful when EVERY language is strictly sorted and non-overlapping
    # (secondary languages are slotted in between the primary language's syncs)
    strict = all(x['end'] <= y['start'] and x['start'] < y['start']
                 for l in before['langs'] for x, y in zip(l['captions'], l['captions'][1:]))
    for l in before['langs']:
        caps = l['captions']
        exp = []
        exact = True
        for i, c in enumerate(caps):
            st = W.trunc(c['start'], 1000)
            exp.append(('cue', st))
            if len(st) != 1:
                exact = False
            if i + 1 < len(caps):
                en = W.trunc(c['end'], 1000)
                nx = W.trunc(caps[i + 1]['start'], 1000)
                if len(en) == 1 and len(nx) == 1 and len(st) == 1:
                    if en != nx:
                        exp.append(('blank', en))
                        ctx.count('sami_blank_syncs_required')
                    else:
                        ctx.count('sami_blank_syncs_forbidden')
                else:
                    exp.append(('maybe-blank', en))
                    exact = False
        got = seq.get(l['lang'], [])
        ctx.count('cues_compared', len(got))
        ok = True
        if strict:
            ctx.count('sami_sequence_checks')
            gi = 0
            for kind, units in exp:
                if kind == 'maybe-blank':
                    if gi < len(got) and got[gi][1] and got[gi][0] in units:
                        gi += 1
                    continue
                if gi >= len(got):
                    ok = False
                    break
                ms, blank, lines = got[gi]
                if (kind == 'cue') == blank or ms not in units:
                    ok = False
                    break
                gi += 1
            if ok and gi != len(got):
                ok = False
        elif exact:
            ctx.count('sami_multiset_checks')
            want_c = collections.Counter(min(u) for k, u in exp if k == 'cue')
            want_b = collections.Counter(min(u) for k, u in exp if k == 'blank')
            got_c = collections.Counter(ms for ms, b, _ in got if not b)
            got_b = collections.Counter(ms for ms, b, _ in got if b)
            ok = want_c == got_c and want_b == got_b
        else:
            # float times on an unsorted language: only the number of cues is decidable
            ok = sum(1 for ms, b, _ in got if not b) == len(caps)
        if not ok:
            fails.append({'what': 'SAMI paragraphs of the language are not: cue at floor(start ms), blank sync at '
                                  'floor(end ms) unless the next cue starts there, nothing after the last cue',
                          'lang': l['lang'], 'strictly_sorted': strict,
                          'expected': [(k, sorted(u)) for k, u in exp][:14],
                          'got(ms, blank)': [(ms, b) for ms, b, _ in got][:14]})
    return fails
