"""C06 — SCC captions appear and disappear at the frames their commands are sent."""
from fractions import Fraction

from vf.gen import sccprog as G
from vf.ref import cea608 as E

ID = 'C06'
RULE = ('pop-on streams of 1-6 captions (drop / non-drop timecode, single / doubled codes, EDM inline before '
        'EOC, on its own line 0..900 frames later, or absent; inter-line gaps 0-8, 10, 40, 100, 900 frames; '
        'frame fields up to :29 with long lines carrying past it; offsets 0, 1, 2, 3600, 0.5, 2.5, 7.25 s, streams that begin '
        'before the offset so that instants are floored at zero) read with '
        'SCCReader.read(offset=...). A sequential reference model in Fraction computes every start / end; '
        '1 us tolerance. Also: loads that load nothing, loads of over a hundred words across a minute / hour of timecode, reader objects used before. Non-trivial: >= 2 captions, a non-zero offset or an inline EDM.')
ANCHORS = ['pycaption.scc:SCCReader._translate_word', 'pycaption.scc:_SccTimeTranslator.get_time',
           'pycaption.scc:_SccTimeTranslator._translate_time', 'pycaption.scc:SCCReader._translate_command',
           'pycaption.scc:SCCReader._pop_on',
           'pycaption.scc.specialized_collections:TimingCorrectingCaptionList._update_last_batch',
           'pycaption.scc.specialized_collections:CaptionCreator.create_and_store',
           'pycaption.scc:fix_last_captions_without_ending', 'pycaption.scc:SCCReader.read']
THOROUGH_SCALE = 2.5        # random budgets of the thorough tier are multiplied by this
REQUIRE = {'streams_drop': 50, 'streams_nondrop': 50, 'streams_with_offset': 50, 'gaps_closed': 20,
           'gaps_exactly_five_frames': 3, 'gaps_open': 20, 'last_caption_four_seconds': 50,
           'flash_cue_streams': 10, 'times_compared': 500, 'captions_split_same_times': 10,
           'streams_beginning_before_the_offset': 20, 'reads_with_lang_option': 50,
           'reads_by_a_reader_object_used_before': 100, 'streams_with_a_load_that_loads_nothing': 100, 'streams_with_a_fractional_offset': 100, 'reads_with_positional_arguments': 100,
           'loads_of_over_a_hundred_words_across_a_minute_or_hour_of_timecode': 100,
           'lines_of_over_a_thousand_words': 10}
CW = Fraction(1001000, 30)        # one code word at 29.97 fps, in microseconds


def gen(rng):
    prog = G.gen_popon(rng, ncaps=rng.randrange(1, 7), rich=rng.random() < 0.3)
    for c in prog['captions']:
        if c['edm'] == 'separate':
            c['edm_gap'] = rng.choice([0, 0, 1, 2, 3, 4, 5, 6, 7, 10, 30, 90, 900])
        c['gap'] = rng.choice([0, 0, 1, 2, 3, 4, 5, 6, 7, 8, 10, 40, 100, 900])
    if rng.random() < 0.2:
        # a load that loads nothing: ENM RCL [EDM] EOC only clears the screen (the memories are swapped)
        k = rng.randrange(1, len(prog['captions']) + 1)
        prog['captions'].insert(k, {'rows': [], 'edm': rng.choice(['inline', 'inline', 'none', 'separate']),
                                    'edm_gap': rng.choice([0, 1, 5, 30]), 'enm': True,
                                    'gap': rng.choice([0, 0, 1, 2, 4, 5, 6, 10, 40])})
    offset = rng.choice([0, 0, 0, 1, 2, 3600, 0.5, 2.5, 7.25])      # fractions that are exact in binary
    start_frame = int(offset * 30) + rng.choice([0, 1, 15, 28, 29, 30, 59, 1799, 1800, 107999, 108000, 2589410, 2592000 - 20, 2592000 + 5,
                                                   108000 * 30 + 7, 108000 * 98 + 1700])
    if offset and rng.random() < 0.3:
        # the stream begins before the offset: the first instants are floored at zero
        start_frame = rng.choice([0, 1, 15, 29, 30, 45, max(0, int(offset * 30) - 20), max(0, int(offset * 30) - 1)])
    case = {'prog': prog, 'offset': offset, 'start_frame': start_frame,
            'min_gap': rng.choice([0, 0, 1, 2, 3, 4, 5, 6, 8, 30, 200]),
            'lang': rng.choice([None, None, None, 'fr', 'en-US', 'x-y'])}
    if rng.random() < 0.2:
        case['positional'] = True
    if rng.random() < 0.2:
        # the reader object has read another document before, with the other kind of timecode in half of them
        case['prior_doc'] = G.prior_doc(rng, drop=rng.choice([None, not prog['drop']]))
    return case


def _probe(drop, extra_gap, offset, start_frame):
    """Two captions, the first cleared by an EDM on its own line, the second as short as a load can
    be, so that the EDM-to-EOC distance is 5 + extra_gap frames."""
    row = lambda r, ch: {'row': r, 'col': 0, 'to': 0, 'pac_italic': False, 'pac_underline': False,
                         'pac_color': None, 'items': [['c', ch]]}
    prog = {'doubled': False, 'drop': drop, 'captions': [
        {'rows': [row(14, 'a')], 'edm': 'separate', 'edm_gap': 40, 'enm': True, 'gap': 0},
        {'rows': [row(15, 'b')], 'edm': 'none', 'enm': True, 'gap': extra_gap}]}
    return {'prog': prog, 'offset': offset, 'start_frame': start_frame, 'min_gap': 0}


def _long_probe(drop, doubled, nrows, start_frame):
    """A short caption, then one of `nrows` full rows (more than a hundred code words) whose load line begins
    shortly before a full minute / hour of timecode and whose End Of Caption falls after it."""
    row = lambda r, text: {'row': r, 'col': 0, 'to': 0, 'pac_italic': False, 'pac_underline': False,
                           'pac_color': None, 'items': [['c', ch] for ch in text]}
    full = 'abcdefghij klmnopqrs tuvwxyz ABCD'[:32]
    prog = {'doubled': doubled, 'drop': drop, 'captions': [
        {'rows': [row(15, 'first')], 'edm': 'none', 'enm': True, 'gap': 0},
        {'rows': [row(r, full) for r in range(1, nrows + 1)], 'edm': 'separate', 'edm_gap': 60, 'enm': True, 'gap': 0}]}
    return {'kind': 'long-load', 'prog': prog, 'offset': 0, 'start_frame': start_frame, 'min_gap': 10}


def _one_line_probe(drop, doubled, start_frame):
    """Seven captions of twelve full rows sent back to back on ONE line of more than a thousand words."""
    row = lambda r, text: {'row': r, 'col': 0, 'to': 0, 'pac_italic': False, 'pac_underline': False,
                           'pac_color': None, 'items': [['c', ch] for ch in text]}
    full = 'abcdefghij klmnopqrs tuvwxyz ABCD'[:32]
    prog = {'doubled': doubled, 'drop': drop, 'captions': [
        {'rows': [row(r, full) for r in range(1, 13)], 'edm': 'none', 'enm': True, 'gap': 0} for _ in range(7)]}
    return {'kind': 'one-line', 'prog': prog, 'offset': 0, 'start_frame': start_frame, 'min_gap': 0, 'one_line': True}


def cases(ctx):
    rng = ctx.rng('c06')
    idx = 0
    for drop in (False, True):
        for doubled in (False, True):
            for sf in (0, 17, 1795):
                if ctx.mine(idx):
                    yield _one_line_probe(drop, doubled, sf)
                idx += 1
    for drop in (False, True):
        for doubled in (False, True):
            for nrows in (5, 8, 12):
                for boundary in (1800, 18000, 108000):
                    for back in (25, 60, 100, 140):
                        if ctx.mine(idx):
                            yield _long_probe(drop, doubled, nrows, boundary - back)
                        idx += 1
    for drop in (False, True):
        for extra in range(0, 4):
            for offset, sf in ((0, 30), (0, 29), (1, 45), (3600, 108000 + 17)):
                if ctx.mine(idx):
                    yield _probe(drop, extra, offset, sf)
                idx += 1
    for _ in range(ctx.budget(9000, 300000)):
        yield gen(rng)


def nontrivial(case):
    p = case['prog']
    return len(p['captions']) >= 2 or case['offset'] != 0 or any(c['edm'] == 'inline' for c in p['captions'])


def model(lines, drop, offset_s):
    """-> (captions [(start, end, n_members)], gap classes seen)."""
    scale = Fraction(1) if drop else Fraction(1001, 1000)
    off = Fraction(offset_s) * 10 ** 6

    def t(frame):
        v = Fraction(frame, 30) * scale * 10 ** 6 - off
        return v if v > 0 else Fraction(0)
    dec = E.Decoder()
    word_frame = []
    for _tc, ws, f0 in lines:
        for k, w in enumerate(ws):
            word_frame.append(f0 + k)
            dec.feed(w)
    caps = []
    open_idx = None
    for ev in dec.events:
        when = t(word_frame[ev[1]])
        if ev[0] == 'show':
            if open_idx is not None:
                caps[open_idx]['end'] = when
                caps[open_idx]['by'] = 'eoc'
                caps[open_idx]['end_frame'] = word_frame[ev[1]]
                open_idx = None
            groups = E.rows_to_captions(ev[2]) if ev[2] else []
            if groups:
                caps.append({'start': when, 'end': None, 'n': len(groups), 'by': None,
                             'frame': word_frame[ev[1]]})
                open_idx = len(caps) - 1
        elif ev[0] == 'clear':
            if open_idx is not None:
                caps[open_idx]['end'] = when
                caps[open_idx]['by'] = 'edm'
                caps[open_idx]['end_frame'] = word_frame[ev[1]]
                open_idx = None
    gaps = []
    for a, b in zip(caps, caps[1:]):
        # the gap rule holds whatever took the caption off the screen: an EDM, or an EOC that shows nothing
        # (for an EOC that shows the next caption the gap is zero)
        if a['by'] in ('edm', 'eoc') and b['frame'] > a['end_frame']:
            g = b['frame'] - a['end_frame']
            gaps.append(g)
            if g <= 4:
                a['end_alt'] = [b['start']]
            elif g == 5:
                a['end_alt'] = [b['start'], a['end']]
            else:
                a['end_alt'] = [a['end']]
        else:
            a['end_alt'] = [a['end']]
    if caps:
        last = caps[-1]
        last['end_alt'] = [last['end']] if last['end'] is not None else [last['start'] + 4 * 10 ** 6]
        last['four'] = last['end'] is None
    return caps, gaps


def check(case, ctx):
    from pycaption import SCCReader
    from pycaption.exceptions import CaptionReadTimingError, CaptionReadNoCaptions
    prog = case['prog']
    lines, _ = G.encode_popon(prog, start_frame=case['start_frame'], min_gap=case['min_gap'])
    if case.get('one_line'):
        # lines whose frames follow each other without a gap are one long line (same words at the same frames)
        merged = []
        for tc, ws, f0 in lines:
            if merged and merged[-1][2] + len(merged[-1][1]) == f0:
                merged[-1] = (merged[-1][0], merged[-1][1] + ws, merged[-1][2])
            else:
                merged.append((tc, list(ws), f0))
        lines = merged
        ctx.count('lines_of_over_a_thousand_words', sum(1 for _tc, ws, _f in lines if len(ws) > 1000))
    doc = G.scc_doc(lines)
    caps, gaps = model(lines, prog['drop'], case['offset'])
    ctx.count('streams_drop' if prog['drop'] else 'streams_nondrop')
    if case.get('kind') == 'long-load':
        ctx.count('loads_of_over_a_hundred_words_across_a_minute_or_hour_of_timecode')
    if any(not c['rows'] for c in prog['captions']):
        ctx.count('streams_with_a_load_that_loads_nothing')
    if case['offset']:
        ctx.count('streams_with_offset')
        if case['offset'] != int(case['offset']):
            ctx.count('streams_with_a_fractional_offset')
        if case['start_frame'] < case['offset'] * 30:
            ctx.count('streams_beginning_before_the_offset')
    for g in gaps:
        ctx.count('gaps_closed' if g <= 4 else 'gaps_exactly_five_frames' if g == 5 else 'gaps_open')
    # flash cue: a displayed duration under 0.05 s (judged on the possible ends)
    flash_sure = any(c['end'] is not None and all(0 < e - c['start'] < 50000 - 1 for e in c['end_alt'])
                     for c in caps)
    flash_maybe = any(c['end'] is not None and any(0 < e - c['start'] < 50000 + 1 for e in c['end_alt'])
                      for c in caps)
    fails = []
    try:
        kw = {'lang': case['lang']} if case.get('lang') else {}
        if kw:
            ctx.count('reads_with_lang_option')
        reader = G.reader_for(case, ctx)
        if case.get('positional'):
            # read(content, lang, simulate_roll_up, offset) in the documented order, by position
            ctx.count('reads_with_positional_arguments')
            cs = reader.read(doc, case.get('lang') or 'en-US', False, case['offset'])
        else:
            cs = reader.read(doc, offset=case['offset'], **kw)
    except CaptionReadTimingError as e:
        if flash_maybe:
            ctx.count('flash_cue_streams')
            return []
        return [{'what': 'timing error raised although no caption is displayed for less than 0.05 s',
                 'error': repr(e)[:300], 'doc': doc, 'model': [(float(c['start']), [float(x) for x in c['end_alt']]) for c in caps]}]
    except CaptionReadNoCaptions as e:
        if not caps:
            return []
        return [{'what': 'no captions read', 'doc': doc}]
    except Exception as e:
        return [{'what': 'SCCReader raised', 'error': repr(e)[:300], 'doc': doc}]
    if flash_sure:
        return [{'what': 'a caption displayed for less than 0.05 s was returned instead of being rejected',
                 'doc': doc, 'model': [(float(c['start']), [float(x) for x in c['end_alt']]) for c in caps]}]
    got = [(c.start, c.end) for c in cs.get_captions(case.get('lang') or 'en-US')]
    exp = []
    for c in caps:
        for _ in range(c['n']):
            exp.append(c)
        if c['n'] > 1:
            ctx.count('captions_split_same_times')
    if len(got) != len(exp):
        return [{'what': 'number of captions differs from the model', 'expected': len(exp), 'got': len(got), 'doc': doc}]
    prev_start = None
    for i, ((s, e), c) in enumerate(zip(got, exp)):
        ctx.count('times_compared', 2)
        if c.get('four'):
            ctx.count('last_caption_four_seconds')
        ok_s = abs(Fraction(s) - c['start']) <= 1
        ok_e = any(abs(Fraction(e) - x) <= 1 for x in c['end_alt'])
        if not ok_s or not ok_e:
            fails.append({'what': 'caption start/end is not the transmission instant of its EOC / next EDM or EOC',
                          'caption': i, 'expected_start': float(c['start']),
                          'expected_end': [float(x) for x in c['end_alt']], 'got': [s, e],
                          'drop': prog['drop'], 'offset': case['offset'], 'doc': doc})
        if s > e:
            fails.append({'what': 'start > end', 'caption': i, 'got': [s, e], 'doc': doc})
        if prev_start is not None and s < prev_start:
            fails.append({'what': 'captions not in transmission order', 'caption': i, 'doc': doc})
        prev_start = s
    return fails[:4]


def classify(case, failure):
    """Known finding: end == 0 is pycaption's 'no end yet' sentinel, so a caption whose start AND end are
    floored at zero by the offset is ended like a never-cleared caption: at the next caption's start or after
    four seconds."""
    if failure.get('what', '').startswith('caption start/end is not the transmission instant') \
            and case['offset'] and failure.get('expected_start') == 0.0 and failure.get('expected_end') \
            and all(e == 0.0 for e in failure['expected_end']) \
            and isinstance(failure.get('got'), list) and failure['got'][0] == 0 and failure['got'][1] > 0:
        return 'scc-caption-cleared-before-the-offset-gets-a-later-end'
    # ... and when that later end is the next caption's start a few frames after the offset, the caption is
    # rejected as displayed for less than 0.05 s
    if failure.get('what', '').startswith('timing error raised although no caption') and case['offset'] \
            and any(m[0] == 0.0 and m[1] and all(e == 0.0 for e in m[1]) for m in failure.get('model', [])) \
            and 'around 00:00:00.000' in failure.get('error', ''):
        return 'scc-caption-cleared-before-the-offset-gets-a-later-end'
    return None
