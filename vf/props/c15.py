"""C15 — SCC lines longer than 32 characters are never returned silently."""
from vf.gen import sccprog as G

ID = 'C15'
RULE = ('SCC streams in pop-on, roll-up and paint-on mode (and mixtures) whose rows carry 0-40 plain '
        'characters with the lengths concentrated on 31/32/33/40; pop-on and paint-on captions use adjacent '
        'rows (several lines in one caption) and non-adjacent rows (several captions sharing a start), so '
        'that the long line is first / middle / last of a same-start group. Rows may begin with one or two blanks (cells of the row) and end with one to three blanks (the reader '
        'removes blanks at the end of every line, so they are not part of it). In three streams of ten, rows also carry erased cells (a letter typed twice with the second taken back by Backspace; an extended character whose stand-in repeats the letter in front of it): the line is what is left on the screen. '
        'Reads use the defaults or lang= / simulate_roll_up=True / offset=0 (with simulate_roll_up the reader '
        'joins the visible roll-up rows into one line: then only "no line over 32 is returned" and "a refusal '
        'names lines over 32" are demanded). A row is addressed once per load '
        '(text overlaid on a row by a second PAC has no defined "line" in the statement). Oracle from the transmitted '
        'rows alone: some row > 32 => CaptionLineLengthError whose message contains every offending row; '
        'otherwise a normal return in which every line has <= 32 characters. Non-trivial: at least one row '
        'of length >= 32, or >= 2 rows in one caption group.')
ANCHORS = ['pycaption.scc:SCCReader.read']
THOROUGH_SCALE = 4        # random budgets of the thorough tier are multiplied by this
REQUIRE = {'streams_with_long_row': 50, 'streams_without_long_row': 50, 'long_rows_in_same_start_group': 20,
           'errors_checked': 50, 'returned_lines_checked': 200, 'mode_roll': 20, 'mode_paint': 20,
           'mode_pop': 20, 'two_long_rows_same_start': 5, 'streams_with_empty_row': 30,
           'rows_of_32_or_more_cells_with_leading_blanks': 20,
           'rows_over_32_cells_only_through_trailing_blanks': 20,
           'streams_with_erased_cells': 100, 'streams_with_a_row_of_blanks_only': 100, 'reads_by_a_reader_object_used_before': 100,
           'reads_by_a_reader_object_whose_previous_read_was_refused': 50, 'reads_with_option_lang': 50, 'reads_with_option_simulate_roll_up': 50}

LENGTHS = [0, 0, 1, 5, 12, 20, 28, 31, 32, 32, 32, 33, 33, 34, 40]


def cases(ctx):
    rng = ctx.rng('c15')
    for _ in range(ctx.budget(9000, 300000)):
        modes = rng.choice([['pop'], ['pop'], ['roll'], ['paint'], ['roll', 'pop'], ['paint', 'pop'],
                            ['pop', 'pop'], ['roll', 'paint'], ['pop', 'roll', 'pop'], ['pop', 'paint', 'pop'],
                            ['pop', 'roll']])
        lengths = LENGTHS if rng.random() < 0.7 else [0, 3, 10, 20, 30, 31, 32]
        kw = {}
        if rng.random() < 0.25:
            kw['lang'] = rng.choice(['fr', 'en-US', 'x-y'])
        if rng.random() < 0.15:
            kw['simulate_roll_up'] = True
        if rng.random() < 0.1:
            kw['offset'] = 0
        edits = rng.random() < 0.3
        case = {'stream': G.gen_stream(rng, modes=modes, lengths=lengths, tagged=True, trailing=True, edits=edits),
                'read_kwargs': kw}
        if rng.random() < 0.25:
            # the reader object has read another document before (a read that was refused, in many of them)
            case['prior_doc'] = G.prior_doc(rng)
        yield case


def _len(row):
    """Cells of a row up to its last visible character: blanks at the end of a line are not part of it."""
    return len(row.rstrip(' '))


def _groups(st):
    """Lists of row lengths that end up with the same start time (one pop-on load / one paint-on line)."""
    out = []
    for seg in st['segments']:
        if seg['mode'] == 'roll':
            for r in seg['rows']:
                out.append([_len(G.items_display(r['items']))])
        elif seg['mode'] == 'paint':
            for ln in seg['lines']:
                out.append([_len(G.items_display(r['items'])) for r in ln['rows']])
        else:
            for cap in seg['captions']:
                if not cap.get('abandoned'):
                    out.append([_len(G.items_display(r['items'])) for r in cap['rows']])
    return out


def _all_rows(st):
    for seg in st['segments']:
        if seg['mode'] == 'roll':
            yield from seg['rows']
        elif seg['mode'] == 'paint':
            for ln in seg['lines']:
                yield from ln['rows']
        else:
            for cap in seg['captions']:
                yield from cap['rows']


def nontrivial(case):
    return any(len(g) >= 2 or any(n >= 32 for n in g) for g in _groups(case['stream']))


def check(case, ctx):
    from pycaption import SCCReader
    from pycaption.exceptions import CaptionLineLengthError, CaptionReadNoCaptions
    st = case['stream']
    lines, rows = G.encode_stream(st)
    doc = G.scc_doc(lines)
    for seg in st['segments']:
        ctx.count('mode_' + seg['mode'])
    long_rows = [r.rstrip(' ') for r in rows if _len(r) > 32]
    if any(r.endswith(' ') and len(r) > 32 >= _len(r) for r in rows):
        ctx.count('rows_over_32_cells_only_through_trailing_blanks')
    if any(it[0] in ('bs', 'ext') for r in _all_rows(st) for it in r['items']):
        ctx.count('streams_with_erased_cells')
    if any(r and not r.strip(' ') for r in rows):
        ctx.count('streams_with_a_row_of_blanks_only')
    if any(len(r) == 0 for r in rows):
        ctx.count('streams_with_empty_row')
    if any(r.startswith(' ') and len(r) >= 32 for r in rows):
        ctx.count('rows_of_32_or_more_cells_with_leading_blanks')
    for g in _groups(st):
        if len(g) >= 2 and any(n > 32 for n in g):
            ctx.count('long_rows_in_same_start_group')
        if sum(1 for n in g if n > 32) >= 2:
            ctx.count('two_long_rows_same_start')
    ctx.count('streams_with_long_row' if long_rows else 'streams_without_long_row')
    kw = case.get('read_kwargs') or {}
    lang = kw.get('lang', 'en-US')
    for k in kw:
        ctx.count('reads_with_option_' + k)
    # with simulate_roll_up the reader joins the roll-up rows still on screen into one line and applies the
    # limit to it: a stream without an over-long row may then be refused as well
    joined = bool(kw.get('simulate_roll_up')) and any(seg['mode'] == 'roll' for seg in st['segments'])
    try:
        cs = G.reader_for(case, ctx).read(doc, **kw)
    except CaptionLineLengthError as e:
        msg = str(e)
        ctx.count('errors_checked')
        if joined and not long_rows:
            named = [ln.rsplit(' - Length ', 1) for ln in msg.split('\n') if ' - Length ' in ln]
            if named and all(len(t.split(' - ', 1)[-1] if t.startswith('around ') else t) > 32 for t, _n in named):
                ctx.count('joined_roll_up_lines_refused')
                return []
            return [{'what': 'line-length error names a line of at most 32 characters', 'message': msg[:400], 'doc': doc}]
        if not long_rows:
            return [{'what': 'line-length error raised although no transmitted row exceeds 32 characters',
                     'message': msg[:400], 'rows': rows, 'doc': doc}]
        missing = [r for r in long_rows if r not in msg]
        if missing:
            return [{'what': 'line-length error does not name every offending line', 'missing': missing,
                     'message': msg[:600], 'doc': doc}]
        return []
    except CaptionReadNoCaptions as e:
        if all(_len(r) == 0 for r in rows):
            return []
        return [{'what': 'no captions read although text was transmitted', 'doc': doc}]
    except Exception as e:
        return [{'what': 'SCCReader raised something else', 'error': repr(e)[:300], 'doc': doc}]
    fails = []
    returned = [ln for c in cs.get_captions(lang) for ln in c.get_text().split('\n')]
    ctx.count('returned_lines_checked', len(returned))
    too_long = [ln for ln in returned if len(ln) > 32]
    if too_long:
        fails.append({'what': 'a line longer than 32 characters was returned silently', 'lines': too_long,
                      'transmitted_long_rows': long_rows, 'doc': doc})
    elif long_rows:
        fails.append({'what': 'a row longer than 32 characters was transmitted but neither reported nor returned',
                      'rows': long_rows, 'returned': returned[:10], 'doc': doc})
    return fails
