"""C03 — written text survives a conformant parser: escaping and cue structure."""
from vf import dump
from vf.gen import capsets, text as T
from vf.props import wcommon as W
from vf.ref import parsers

ID = 'C03'
RULE = ('captions of 1-4 uniquely tagged lines over printable Unicode with a weighted adversarial pool '
        '(& < > quotes, -->, entity-looking and markup-looking strings, digit-only lines, timing-looking '
        'lines, braces, leading/trailing blanks), optional empty lines (consecutive BREAKs, empty or blank '
        'TEXT nodes between breaks, leading/trailing BREAKs), optional balanced style spans (italics / a '
        'colour class that emits no markup) placed at any node boundary including between two breaks, '
        'lines split into several text nodes at spaces; 1-3 languages for DFXP/SAMI; x 7 writers. Output '
        'parsed by the independent parser of the format; per cue the non-empty whitespace-normalised '
        'lines must equal the caption\'s. Some sets repeat a text inside a language. Non-trivial: a metacharacter of the target format or an empty '
        'line or a style node is present.')
ANCHORS = ['pycaption.dfxp.base:DFXPWriter._encode', 'pycaption.dfxp.base:DFXPWriter._recreate_text',
           'pycaption.dfxp.base:DFXPWriter._recreate_span',
           'pycaption.dfxp.extras:LegacyDFXPWriter._recreate_text',
           'pycaption.sami:SAMIWriter._encode', 'pycaption.sami:SAMIWriter._recreate_text',
           'pycaption.sami:SAMIWriter._recreate_span',
           'pycaption.webvtt:WebVTTWriter._encode_illegal_characters',
           'pycaption.webvtt:WebVTTWriter._group_cues_by_layout',
           'pycaption.srt:SRTWriter._recreate_lang', 'pycaption.srt:SRTWriter._recreate_line',
           'pycaption.microdvd:MicroDVDWriter._recreate_lang']
THOROUGH_SCALE = 5        # random budgets of the thorough tier are multiplied by this
REQUIRE = {'writes_' + w: 30 for w in W.WRITERS}
REQUIRE.update({'captions_with_empty_lines': 50, 'captions_with_arrow': 10, 'captions_with_amp_or_lt': 100,
                'captions_with_style_between_breaks': 5, 'lines_compared': 2000,
                'sets_with_a_repeated_text': 100, 'webvtt_captions_in_two_regions': 50})


def gen_caption_nodes(rng, tag, writer):
    excl = '|' if writer == 'MicroDVDWriter' else ''
    nodes, lines = capsets.text_nodes(rng, tag, empty_lines=0.25, p_meta=0.35, p_uni=0.2, exclude=excl)
    # split some text nodes at a space (the space stays at the end of the left part)
    out = []
    for n in nodes:
        if n[0] == 't' and ' ' in n[1].strip() and rng.random() < 0.2:
            s = n[1]
            idxs = [i for i, ch in enumerate(s) if ch == ' ' and 0 < i < len(s) - 1]
            if idxs:
                i = rng.choice(idxs)
                out.append(['t', s[:i + 1]])
                out.append(['t', s[i + 1:]])
                continue
        out.append(n)
    nodes = out
    feats = set()
    if rng.random() < 0.3:
        # a balanced flat span around a random slice of the node list
        style = rng.choice([{'italics': True}, {'class': 'hl'}, {'color': 'red'}, {'bold': True}])
        i = rng.randrange(0, len(nodes) + 1)
        j = rng.randrange(i, len(nodes) + 1)
        nodes = nodes[:i] + [['s', True, style]] + nodes[i:j] + [['s', False, style]] + nodes[j:]
        feats.add('style')
        for a, b, c in zip(nodes, nodes[1:], nodes[2:]):
            if a[0] == 'b' and b[0] == 's' and c[0] == 'b':
                feats.add('style-between-breaks')
    return nodes, feats


def gen_case(rng, tag, writer):
    multi = writer not in W.SINGLE_LANG
    nlang = rng.choice([1, 1, 2]) if multi else 1
    spec = {'langs': [], 'styles': None, 'layout': None}
    feats = set()
    for li, lang in enumerate(rng.sample(capsets.LANGS, nlang)):
        n = rng.randrange(1, 5)
        caps = []
        t = rng.choice([0, 1000000, 5000000, 3599000000])
        for ci in range(n):
            dur = rng.choice([1000000, 2000000, 3500000])
            nodes, f = gen_caption_nodes(rng, f'{tag}.{li}.{ci}', writer)
            feats |= f
            nlines = 1 + sum(1 for n in nodes if n[0] == 'b')
            if writer == 'WebVTTWriter' and nlines >= 2 and 'style' not in f and rng.random() < 0.3:
                # the lines lie in two regions: WebVTT writes one cue per region, each with its own lines
                from vf.gen import geom
                la, lb = geom.pct_layout(rng), geom.pct_layout(rng)
                if la != lb and la.get('origin') and lb.get('origin'):
                    cutline = rng.randrange(1, nlines)
                    ln = 0
                    for n in nodes:
                        if n[0] == 'b':
                            ln += 1
                        elif n[0] == 't':
                            n.append(la if ln < cutline else lb)
                    feats.add('two-regions')
            caps.append({'start': t, 'end': t + dur, 'nodes': nodes, 'style': None, 'layout': None})
            if writer in W.MERGING and rng.random() < 0.15:
                pass          # next caption shares the timespan
            else:
                t += dur + rng.choice([0, 500000, 2000000])
        if len(caps) >= 2 and rng.random() < 0.2:
            # the same text twice in one language (texts are otherwise uniquely tagged)
            i = rng.randrange(1, len(caps))
            caps[i]['nodes'] = [list(n) for n in caps[rng.randrange(0, i)]['nodes']]
            feats.add('repeated-text')
        spec['langs'].append({'lang': lang, 'layout': None, 'captions': caps})
    if any('class' in str(c['nodes']) for l in spec['langs'] for c in l['captions']):
        spec['styles'] = {'hl': {'color': 'yellow'}}
    return {'writer': writer, 'opts': {}, 'set': spec, 'features': sorted(feats)}


def cases(ctx):
    rng = ctx.rng('c03')
    for i in range(ctx.budget(10000, 400000)):
        yield gen_case(rng, f'X{ctx.shard}.{i}', W.WRITERS[i % len(W.WRITERS)])


def _norm(lines):
    """Per line: trimmed (any white space), runs of ASCII blanks collapsed; every other character - no-break
    and ideographic spaces inside the line included - stays what it is.  Empty lines are dropped."""
    import re
    out = []
    for ln in lines:
        ln = re.sub(r'[ \t\r\n\f\v]+', ' ', ln.strip())
        if ln.strip():
            out.append(ln)
    return out


def _lines_of(cap):
    return _norm(dump.text_lines(cap['nodes']))


def nontrivial(case):
    if case['features']:
        return True
    for l in case['set']['langs']:
        for c in l['captions']:
            raw = dump.text_lines(c['nodes'])
            if any(not x.strip() for x in raw):
                return True
            if any(T.has_meta(x) for x in raw):
                return True
    return False


def check(case, ctx):
    writer = case['writer']
    cs = dump.mk_caption_set(case['set'])
    before = dump.caption_set(cs)
    ctx.count('writes_' + writer)
    if 'style-between-breaks' in case['features']:
        ctx.count('captions_with_style_between_breaks')
    if 'repeated-text' in case['features']:
        ctx.count('sets_with_a_repeated_text')
    if 'two-regions' in case['features']:
        ctx.count('webvtt_captions_in_two_regions')
    for l in before['langs']:
        for c in l['captions']:
            raw = dump.text_lines(c['nodes'])
            if any(not x.strip() for x in raw):
                ctx.count('captions_with_empty_lines')
            joined = '\n'.join(raw)
            if '-->' in joined:
                ctx.count('captions_with_arrow')
            if '&' in joined or '<' in joined:
                ctx.count('captions_with_amp_or_lt')
    try:
        out = W.make_writer(writer, case['opts']).write(cs)
    except Exception as e:
        return [{'what': 'writer raised', 'writer': writer, 'error': repr(e)[:500]}]
    try:
        parsed = W.parse_output(writer, out)
    except parsers.RefSyntaxError as e:
        return [{'what': 'output is not well-formed for its format', 'writer': writer,
                 'error': str(e)[:300], 'output_head': out[:800]}]
    fails = []
    if writer == 'SAMIWriter':
        seq = {}
        for s in parsed['doc']['syncs']:
            for p in s['ps']:
                if not p['blank']:
                    seq.setdefault(p['lang'], []).append(p)
                if p['unclosed'] or p['stray_end_tags']:
                    pass
        for l in before['langs']:
            got = seq.get(l['lang'], [])
            if len(got) != len(l['captions']):
                fails.append({'what': 'cue created, lost, split or merged because of its text', 'writer': writer,
                              'lang': l['lang'], 'expected_cues': len(l['captions']), 'got_cues': len(got),
                              'got_lines': [p['lines'] for p in got][:6]})
                continue
            for c, p in zip(l['captions'], got):
                want, have = _lines_of(c), _norm(p['lines'])
                ctx.count('lines_compared', len(want))
                if want != have:
                    fails.append({'what': 'cue text differs after parsing the output', 'writer': writer,
                                  'expected': want, 'got': have})
        return fails[:4]
    out_langs = parsed['langs']
    want_langs = before['langs'] if writer not in W.SINGLE_LANG else before['langs'][:1]
    if len(out_langs) != len(want_langs):
        return [{'what': 'number of languages written differs', 'writer': writer,
                 'expected': len(want_langs), 'got': len(out_langs), 'output_head': out[:600]}]
    res = 40000 if writer == 'MicroDVDWriter' else 1000
    if all(ol is not None for ol, _ in out_langs) and \
            sorted(str(ol) for ol, _ in out_langs) == sorted(l['lang'] for l in want_langs) and \
            len({l['lang'] for l in want_langs}) == len(want_langs):
        # labelled languages are matched by their label: the order of the languages is C14's clause
        by_label = {ol: cues for ol, cues in out_langs}
        out_langs = [(l['lang'], by_label[l['lang']]) for l in want_langs]
    for (olang, cues), l in zip(out_langs, want_langs):
        runs = W.caption_runs(l['captions'], res, merging=writer in W.MERGING,
                              splitting=writer == 'WebVTTWriter')
        if writer == 'MicroDVDWriter':
            key = lambda c: (c['start_frame'], c['end_frame'])
        else:
            key = lambda c: (c['start'] // res, c['end'] // res)
        asg = W.align(runs, cues, key)
        if asg is None:
            fails.append({'what': 'cue created, lost, split or merged because of its text', 'writer': writer,
                          'lang': l['lang'], 'expected_cues': len(runs), 'got_cues': len(cues),
                          'got_lines': [c['lines'] for c in cues][:6],
                          'expected_lines': [[_lines_of(m) for m in r['members']] for r in runs][:6]})
            continue
        for r, idxs in zip(runs, asg):
            want = [x for m in r['members'] for x in _lines_of(m)]
            have = [x for i in idxs for x in _norm(cues[i]['lines'])]
            ctx.count('lines_compared', len(want))
            if want != have:
                fails.append({'what': 'cue text differs after parsing the output', 'writer': writer,
                              'expected': want, 'got': have})
    return fails[:4]
