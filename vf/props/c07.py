"""C07 — DFXP output is well-formed XML and internally consistent."""
import re
import xml.etree.ElementTree as ET

from vf import dump
from vf.gen import capsets, docs, geom, inline, sccprog
from vf.props import wcommon as W
from vf.ref import parsers

ID = 'C07'
RULE = ('(a) API-built caption sets: printable-Unicode text, style dictionaries over the keys the writers know '
        'with metacharacters in values, class names and language codes (including p, default, bottom, r0), '
        'balanced style spans (flat, and a second span nested inside another), percentage layouts at set / language / caption / node / span level, 1-3 '
        'languages; (b) caption sets returned by the six readers on generated documents (rich inline text, '
        'SCC programs). x DFXPWriter / SinglePositioningDFXPWriter / LegacyDFXPWriter x {relativize, '
        'fit_to_screen, video size, write_inline_positioning, force}; in one case of five the writer object has '
        'written another set before. Output judged by expat (and by lxml '
        'when every xml:id is an NCName). Non-trivial: a metacharacter reaches an attribute or text '
        'position, or the set carries >= 2 distinct layouts.')
ANCHORS = ['pycaption.dfxp.base:DFXPWriter.write', 'pycaption.dfxp.base:DFXPWriter._recreate_p_tag',
           'pycaption.dfxp.base:DFXPWriter._recreate_text', 'pycaption.dfxp.base:DFXPWriter._recreate_span',
           'pycaption.dfxp.base:DFXPWriter._recreate_styling_tag', 'pycaption.dfxp.base:_recreate_style',
           'pycaption.dfxp.base:RegionCreator.create_document_regions',
           'pycaption.dfxp.base:RegionCreator.get_positioning_info',
           'pycaption.dfxp.base:RegionCreator.cleanup_regions', 'pycaption.dfxp.base:_OrderedSet.add',
           'pycaption.dfxp.extras:LegacyDFXPWriter.write', 'pycaption.dfxp.extras:LegacyDFXPWriter._recreate_span',
           'pycaption.dfxp.extras:LegacyDFXPWriter._recreate_style']
THOROUGH_SCALE = 3        # random budgets of the thorough tier are multiplied by this
REQUIRE = {'writes_DFXPWriter': 100, 'writes_SinglePositioningDFXPWriter': 50, 'writes_LegacyDFXPWriter': 50,
           'outputs_parsed': 300, 'meta_in_attribute_value': 50, 'sets_from_readers': 50,
           'inline_positioning_writes': 20, 'force_writes': 20, 'regions_defined': 100,
           'lxml_also_checked': 50, 'unused_regions_possible': 10,
           'sets_from_styled_documents': 50, 'languages_with_concurrent_runs_written_by_a_merging_writer': 50, 'suite_dfxp_outputs_parsed': 20,
           'writes_by_a_writer_object_used_before': 100, 'sets_with_nested_spans': 100}
DFXP_WRITERS = ['DFXPWriter', 'SinglePositioningDFXPWriter', 'LegacyDFXPWriter']
NCNAME = re.compile(r'^[A-Za-z_][\w.\-]*$')


def gen_opts(rng, writer):
    opts = {}
    if writer != 'LegacyDFXPWriter':
        if rng.random() < 0.4:
            opts['relativize'] = rng.choice([True, False])
        if rng.random() < 0.4:
            opts['fit_to_screen'] = rng.choice([True, False])
        if rng.random() < 0.3:
            opts.update(video_width=640, video_height=360)
        if rng.random() < 0.3:
            opts['write_inline_positioning'] = True
    if writer == 'SinglePositioningDFXPWriter' and rng.random() < 0.5:
        from vf.gen import geom
        opts['default_positioning'] = rng.choice([None, {'origin': None, 'extent': None, 'padding': None, 'alignment': None},
                                                  geom.pct_layout(rng)])
    return opts


def cases(ctx):
    rng = ctx.rng('c07')
    if ctx.shard == 0:
        yield {'kind': 'suite', 'writer': None, 'opts': {}, 'force': '', 'src': {'kind': 'suite'}}
    for i in range(ctx.budget(5000, 150000)):
        writer = DFXP_WRITERS[i % 3] if rng.random() < 0.6 else 'DFXPWriter'
        r = rng.random()
        tag = f'D{ctx.shard}.{i}'
        if r < 0.6:
            src = {'kind': 'api', 'set': capsets.rich_set(rng, tag)}
            if rng.random() < 0.3 and capsets.nest_spans(rng, src['set']):
                src['nested'] = True
        elif r < 0.78:
            d = (docs.gen_dfxp_styled if rng.random() < 0.5 else docs.gen_sami_styled)(rng, tag)
            src = {'kind': 'reader', 'format': d['format'], 'doc': d['doc'], 'reader_kwargs': {}, 'read_kwargs': {},
                   'styled': True}
        elif r < 0.9:
            fmt = rng.choice(sorted(docs.GENERATORS))
            d = docs.generate(fmt, rng, tag, ctx, text=inline.rich_lines)
            src = {'kind': 'reader', 'format': fmt, 'doc': d['doc'], 'reader_kwargs': d['reader_kwargs'],
                   'read_kwargs': d['read_kwargs']}
        else:
            prog = sccprog.gen_popon(rng, italic_bias=rng.choice([0.0, 0.5, 0.9]))
            lines, _ = sccprog.encode_popon(prog)
            src = {'kind': 'reader', 'format': 'scc', 'doc': sccprog.scc_doc(lines), 'reader_kwargs': {},
                   'read_kwargs': {}}
        force = ''
        if rng.random() < 0.25:
            force = rng.choice(['en', 'fr', 'zz', 'en-US'])
            if src['kind'] == 'api' and rng.random() < 0.7:
                force = rng.choice([l['lang'] for l in src['set']['langs']])
                if rng.random() < 0.25:
                    force = rng.choice([force.upper(), force.lower(), force.swapcase()])
        case = {'writer': writer, 'opts': gen_opts(rng, writer), 'force': force, 'src': src}
        if rng.random() < 0.2:
            # the writer object has written another set before (with a style called p in half of them)
            prior = capsets.rich_set(rng, tag + 'P')
            if rng.random() < 0.5:
                prior['styles'] = dict(prior['styles'] or {})
                prior['styles'].setdefault('p', {'color': 'red', 'font-size': '12px'})
            case['prior'] = prior
        yield case


def _build(case):
    import pycaption
    src = case['src']
    if src['kind'] == 'api':
        return dump.mk_caption_set(src['set'])
    name = 'SCCReader' if src['format'] == 'scc' else docs.READERS[src['format']]
    return getattr(pycaption, name)(**src['reader_kwargs']).read(src['doc'], **src['read_kwargs'])


def nontrivial(case):
    src = case['src']
    if src['kind'] in ('reader', 'suite'):
        return True
    s = repr(src['set'])
    return any(ch in s for ch in '&<"') or s.count("'origin': [[") >= 2


def check(case, ctx):
    from pycaption.exceptions import RelativizationError
    writer = case['writer']
    if case.get('kind') == 'suite':
        from vf import suite
        data = suite.run_suite()
        ctx.count('suite_dfxp_outputs_parsed', data['counts'].get('dfxp_output_parsed', 0))
        return [{'what': v['violation'], 'test': v.get('test')} for v in data['violations']
                if v.get('property') == 'C07'][:3]
    try:
        cs = _build(case)
    except Exception as e:
        ctx.count('source_document_unreadable')
        return []
    before = dump.caption_set(cs)
    if case['src']['kind'] == 'reader':
        ctx.count('sets_from_readers')
        if case['src'].get('styled'):
            ctx.count('sets_from_styled_documents')
    ctx.count('writes_' + writer)
    if case['src'].get('nested'):
        ctx.count('sets_with_nested_spans')
    if case['opts'].get('write_inline_positioning'):
        ctx.count('inline_positioning_writes')
    kw = {}
    if case['force']:
        kw['force'] = case['force']
        ctx.count('force_writes')
    wobj = W.make_writer(writer, case['opts'])
    if case.get('prior'):
        try:
            wobj.write(dump.mk_caption_set(case['prior']))
            ctx.count('writes_by_a_writer_object_used_before')
        except Exception:
            ctx.count('prior_write_refused')
    try:
        out = wobj.write(cs, **kw)
    except (RelativizationError, ValueError) as e:
        ctx.count('writer_refused')
        return []
    except Exception as e:
        return [{'what': 'writer raised', 'writer': writer, 'error': repr(e)[:400]}]
    fails = []
    try:
        root = ET.fromstring(out.encode('utf-8'))
    except ET.ParseError as e:
        m = re.search(r'line (\d+), column (\d+)', str(e))
        ctxt = ''
        if m:
            lines = out.split('\n')
            ln = lines[int(m.group(1)) - 1] if int(m.group(1)) <= len(lines) else ''
            ctxt = ln[max(0, int(m.group(2)) - 60):int(m.group(2)) + 40]
        return [{'what': 'output is not well-formed XML', 'writer': writer, 'error': str(e), 'around': ctxt,
                 'opts': case['opts']}]
    ctx.count('outputs_parsed')
    doc = parsers.parse_ttml(out)
    ids = [s.get('{%s}id' % parsers.XMLNS) for s in doc['styles']] + \
          [r.get('{%s}id' % parsers.XMLNS) for r in doc['regions']]
    # lxml additionally enforces xml:id (NCName, uniqueness): only asked when that cannot interfere
    if all(i is not None and NCNAME.match(i) for i in ids) and len(set(ids)) == len(ids):
        try:
            from lxml import etree
            etree.fromstring(out.encode('utf-8'))
            ctx.count('lxml_also_checked')
        except Exception as e:
            fails.append({'what': 'lxml (no recovery) rejects the output', 'error': str(e)[:300]})
    if re.search(r'[&<"]', ' '.join(v for s in doc['styles'] + doc['regions'] for v in s.values()) +
                 ' '.join(v for d in doc['divs'] for p in d['ps'] for v in p['attrib'].values()) +
                 ' '.join(v for d in doc['divs'] for p in d['ps'] for sp in p['spans'] for v in sp.values()) +
                 ' '.join(str(d['lang']) for d in doc['divs'])):
        ctx.count('meta_in_attribute_value')
    if doc['root'] != '{%s}tt' % parsers.TTML:
        fails.append({'what': 'root element is not tt in the TTML namespace', 'root': doc['root']})
    # languages written
    langs = [l['lang'] for l in before['langs']]
    if writer == 'LegacyDFXPWriter':
        want_langs = [case['force'] if case['force'] in langs else langs[-1]] if case['force'] else langs
    else:
        want_langs = [case['force']] if case['force'] in langs else langs
    got_langs = [d['lang'] for d in doc['divs']]
    # one div per written language; the order of the divs belongs to C14, not to this property
    if sorted(map(str, got_langs)) != sorted(map(str, want_langs)):
        fails.append({'what': 'divs do not correspond to the written languages', 'expected': want_langs,
                      'got': got_langs, 'force': case['force']})
    else:
        by_lang = {l['lang']: l for l in before['langs']}
        for d in doc['divs']:
            caps = by_lang[d['lang']]['captions']
            n = len(W.caption_runs(caps, 1000, merging=True)) if writer != 'DFXPWriter' else len(caps)
            lo = hi = n
            if n != len(caps):
                ctx.count('languages_with_concurrent_runs_written_by_a_merging_writer')
            if not lo <= len(d['ps']) <= hi:
                fails.append({'what': 'number of p elements differs from the number of captions / runs',
                              'lang': d['lang'], 'expected_between': [lo, hi], 'got': len(d['ps'])})
            for p in d['ps']:
                if not p['begin'] or not p['end']:
                    fails.append({'what': 'p without begin/end', 'attrib': p['attrib']})
    # ids unique, references resolve, regions referenced
    style_ids = [s.get('{%s}id' % parsers.XMLNS) for s in doc['styles']]
    region_ids = [r.get('{%s}id' % parsers.XMLNS) for r in doc['regions']]
    ctx.count('regions_defined', len(region_ids))
    allids = [i for i in style_ids + region_ids if i is not None]
    dup = sorted({i for i in allids if allids.count(i) > 1})
    if dup:
        fails.append({'what': 'duplicate xml:id', 'ids': dup, 'style_ids': style_ids, 'region_ids': region_ids})
    refs_style, refs_region = [], []
    for el in root.iter():
        if el.tag in ('{%s}style' % parsers.TTML, '{%s}region' % parsers.TTML) and False:
            continue
        if el.get('style') is not None:
            refs_style.append(el.get('style'))
        if el.get('region') is not None:
            refs_region.append(el.get('region'))
    for r in refs_style:
        if style_ids.count(r) != 1:
            fails.append({'what': 'style= reference does not resolve to exactly one definition', 'ref': r,
                          'style_ids': style_ids})
            break
    for r in refs_region:
        if region_ids.count(r) != 1:
            fails.append({'what': 'region= reference does not resolve to exactly one definition', 'ref': r,
                          'region_ids': region_ids})
            break
    for r in region_ids:
        if r not in refs_region:
            fails.append({'what': 'region defined but never referenced', 'region': r, 'refs': sorted(set(refs_region)),
                          'no_p_written': not any(d['ps'] for d in doc['divs'])})
    # how many distinct layouts could have produced regions that are not referenced (force / fallbacks)
    if case['force'] and len(langs) > 1:
        ctx.count('unused_regions_possible')
    for f in fails:
        f.setdefault('writer', writer)
        f.setdefault('opts', case['opts'])
    return fails[:4]


def classify(case, failure):
    """Known finding: a style whose id equals a generated region id (bottom, r0, r1, ...)."""
    if failure.get('what') == 'duplicate xml:id':
        if all(i == 'bottom' or re.fullmatch(r'r\d+', i) for i in failure['ids']):
            if all(i in failure['style_ids'] and i in failure['region_ids'] for i in failure['ids']):
                return 'dfxp-style-id-collides-with-region-id'
    if failure.get('what') == 'region defined but never referenced' and failure.get('writer') == 'LegacyDFXPWriter' \
            and failure.get('region') == 'bottom' and failure.get('refs') == [] and failure.get('no_p_written'):
        return 'legacy-dfxp-no-caption-written-leaves-default-region-unreferenced'
    if failure.get('what') in ('region= reference does not resolve to exactly one definition',
                               'style= reference does not resolve to exactly one definition'):
        # the same collision seen from the reference side is NOT excused: style_ids/region_ids are
        # separate lists, so a collision never makes a reference ambiguous here
        return None
    return None
