"""C05 — SCC pop-on decoding reproduces the CEA-608 screen: text, rows, italics, position."""
import itertools

from vf.gen import sccprog as G
from vf.ref import cea608 as E

ID = 'C05'
RULE = ('pop-on programs from an abstract model (per caption: rows in increasing order, each PAC [TO] + '
        'items: basic chars, special chars, extended chars with stand-in, backspace, mid-row codes; italic / '
        'colour / underline PACs), single or fully doubled, encoded with tables rebuilt from the standard. '
        'Exhaustive: every (row, indent column, tab offset) x {single, doubled} (960 programs), every basic / '
        'special / extended code x {single, doubled}, every ordered pair of 12 abstract row items on 1- and '
        '2-row captions, every (last row of caption n, first row of caption n+1) pair; random: streams of '
        '1-3 captions x 1-4 rows x up to 12 items, one in five read by a reader object that has read another document before. Expected captions come from a 15x32 reference screen '
        'model. Non-trivial: more than one row, a non-basic item, or doubled mode.')
ANCHORS = ['pycaption.scc:SCCReader._translate_line', 'pycaption.scc:SCCReader._translate_word',
           'pycaption.scc:SCCReader._translate_command', 'pycaption.scc:SCCReader._translate_characters',
           'pycaption.scc:SCCReader._translate_extended_char', 'pycaption.scc:SCCReader._translate_special_char',
           'pycaption.scc:SCCReader._handle_double_command',
           'pycaption.scc.specialized_collections:InstructionNodeCreator.add_chars',
           'pycaption.scc.specialized_collections:InstructionNodeCreator.interpret_command',
           'pycaption.scc.specialized_collections:InstructionNodeCreator.handle_backspace',
           'pycaption.scc.specialized_collections:_format_italics',
           'pycaption.scc.specialized_collections:_close_italics_before_repositioning',
           'pycaption.scc.specialized_collections:_ensure_final_italics_node_closes',
           'pycaption.scc.specialized_collections:_get_layout_from_tuple',
           'pycaption.scc.state_machines:_PositioningTracker.update_positioning']
THOROUGH_SCALE = 2.5        # random budgets of the thorough tier are multiplied by this
REQUIRE = {'programs_single': 50, 'programs_doubled': 50, 'captions_compared': 500,
           'captions_multi_row': 50, 'captions_split_by_gap': 20, 'items_ext': 50, 'items_sp': 50,
           'items_bs': 20, 'items_mid': 50, 'mid_char_probes': 200, 'reads_by_a_reader_object_used_before': 100, 'italic_chars_expected': 100, 'decoder_states_seen': 20}
EXHAUSTIVE = {'quick': False, 'thorough': False}

ABSTRACT_ITEMS = [['c', 'a'], ['c', 'B'], ['c', ' '], ['c', '.'], ['sp', 7], ['sp', 0], ['ext', 'É'],
                  ['ext', 'ü'], ['bs'], ['mid', 14], ['mid', 0], ['mid', 15]]


def _simple_row(row, col=0, to=0, items=None, **kw):
    spec = {'row': row, 'col': col, 'to': to, 'pac_italic': False, 'pac_underline': False,
            'pac_color': None, 'items': items or [['c', 'h'], ['c', 'i']]}
    spec.update(kw)
    return spec


def _prog(rows_per_caption, doubled):
    return {'doubled': doubled, 'drop': False,
            'captions': [{'rows': rows, 'edm': 'inline', 'enm': True, 'gap': 40} for rows in rows_per_caption]}


def _legal_items(items, single):
    if not G._visible_after(items):
        return False
    cells = 0
    prev = None
    for it in items:
        if it[0] == 'bs':
            if cells < 2 or prev is None or prev[0] not in ('c', 'sp', 'ext') or prev == ['c', ' ']:
                return False
            cells -= 1
        else:
            cells += 1
        if single and prev is not None and prev == it and it[0] != 'c':
            return False
        prev = it
    return any(i[0] in ('c', 'sp', 'ext') and i != ['c', ' '] for i in items)


def cases(ctx):
    rng = ctx.rng('c05')
    idx = 0
    for doubled in (False, True):
        for row in range(1, 16):
            for col in range(0, 32, 4):
                for to in range(4):
                    if ctx.mine(idx):
                        items = [['c', 'h'], ['c', 'i']][:32 - col - to]
                        yield {'kind': 'address', 'prog': _prog([[_simple_row(row, col, to, items)]], doubled)}
                    idx += 1
        for code in sorted(E.BASIC):
            if code in (0x7f,):
                continue
            if ctx.mine(idx):
                yield {'kind': 'char', 'prog': _prog([[_simple_row(5, 4, 0, [['c', 'x'], ['c', E.BASIC[code]], ['c', 'y']])]], doubled)}
            idx += 1
        for i in G.SPECIAL_IDX:
            if ctx.mine(idx):
                yield {'kind': 'char', 'prog': _prog([[_simple_row(5, 4, 0, [['c', 'x'], ['sp', i], ['c', 'y']])]], doubled)}
            idx += 1
        for ch in G.EXT_POOL:
            if ctx.mine(idx):
                yield {'kind': 'char', 'prog': _prog([[_simple_row(5, 4, 0, [['c', 'x'], ['ext', ch], ['c', 'y']])]], doubled)}
            idx += 1
        # a mid-row code between two basic characters is one blank cell, for every basic character after it
        for code in sorted(E.BASIC):
            if code in (0x7f,):
                continue
            for mid in (0, 14, 15):
                if ctx.mine(idx):
                    yield {'kind': 'mid-char', 'prog': _prog([[_simple_row(5, 4, 0, [['c', 'x'], ['mid', mid], ['c', E.BASIC[code]], ['c', 'y']])]], doubled)}
                idx += 1
        for a in range(1, 16):
            for b in range(1, 16):
                if ctx.mine(idx):
                    yield {'kind': 'row-pair', 'prog': _prog([[_simple_row(a, 4)], [_simple_row(b, 8)]], doubled)}
                idx += 1
        # all item sequences of length 1..L over the abstract alphabet, on one row and on the 2nd of two rows
        L = 2 if ctx.tier == 'quick' else 3
        for n in range(1, L + 1):
            for combo in itertools.product(ABSTRACT_ITEMS, repeat=n):
                items = [['c', 'w']] + [list(x) for x in combo] + [['c', 'z']]
                if not _legal_items(items, not doubled):
                    continue
                if ctx.mine(idx):
                    yield {'kind': 'items', 'prog': _prog([[_simple_row(3, 4, 1, items)]], doubled)}
                idx += 1
                if ctx.mine(idx):
                    yield {'kind': 'items', 'prog': _prog([[_simple_row(3, 0, 0), _simple_row(4, 4, 2, items)]], doubled)}
                idx += 1
    # a row that fills all 32 columns (plain / italic / underlined / coloured preamble), alone, followed by an
    # adjacent row, or followed by a row elsewhere that starts with text or with a mid-row code
    full = 'abcdefghij klmnopqrs tuvwxyzABCDEF'[:32]
    for doubled in (False, True):
        for style in ({}, {'pac_italic': True}, {'pac_underline': True}, {'pac_color': 2}):
            for nxt in (None, ('adjacent', []), ('far', []), ('far', [['mid', 14]]), ('far', [['mid', 0]]),
                        ('adjacent', [['mid', 14]]), ('far', [['mid', 15]])):
                for row in (1, 8, 14):
                    if ctx.mine(idx):
                        rows = [_simple_row(row, 0, 0, [['c', ch] for ch in full], **style)]
                        if nxt:
                            r2 = row + 1 if nxt[0] == 'adjacent' else (row + 5 if row + 5 <= 15 else row - 5)
                            rows.append(_simple_row(r2, 16, 1, nxt[1] + [['c', 'x'], ['c', 'y'], ['c', 'z']]))
                            rows.sort(key=lambda r: r['row'])     # loads address their rows from top to bottom
                        yield {'kind': 'full-row', 'prog': _prog([rows], doubled)}
                    idx += 1
    for _ in range(ctx.budget(10000, 400000)):
        case = {'kind': 'random', 'prog': G.gen_popon(rng, italic_bias=rng.choice([0.0, 0.0, 0.5, 0.9]))}
        if rng.random() < 0.2:
            case['prior_doc'] = G.prior_doc(rng)      # the reader object has read another document before
        yield case


def nontrivial(case):
    p = case['prog']
    if p['doubled']:
        return True
    for c in p['captions']:
        if len(c['rows']) > 1:
            return True
        for r in c['rows']:
            if any(i[0] != 'c' for i in r['items']) or r['pac_italic']:
                return True
    return False


# ------------------------------------------------------------------------------- oracle

def expected_captions(lines):
    dec = E.Decoder()
    for _tc, ws, _f in lines:
        for w in ws:
            dec.feed(w)
    out = []
    for ev in dec.events:
        if ev[0] == 'show' and ev[2]:
            out.append(E.rows_to_captions(ev[2]))
    return out


def got_lines(caption):
    """[[(ch, italic)...] per line], plus structural complaints about the style nodes."""
    from pycaption.base import CaptionNode
    lines = [[]]
    italic = False
    problems = []
    for n in caption.nodes:
        if n.type_ == CaptionNode.TEXT:
            for ch in n.content:
                lines[-1].append((ch, italic))
        elif n.type_ == CaptionNode.BREAK:
            lines.append([])
        elif n.type_ == CaptionNode.STYLE:
            if n.start:
                if italic:
                    problems.append('nested italics start')
                italic = True
            else:
                if not italic:
                    problems.append('italics end without start')
                italic = False
    if italic:
        problems.append('italics never closed')
    return lines, problems


def match_line(exp, got, strict=False):
    """exp: [(ch, italic, optional)], got: [(ch, italic)].  Visible characters and their italic flag
    must match in order; between two visible characters the number of blanks must lie between the
    number of real blanks and real + optional (mid-row cells); trailing blanks are ignored; leading
    blanks likewise bounded."""
    def tokens(seq, has_opt):
        toks = []
        real = opt = 0
        for item in seq:
            ch = item[0]
            if ch == ' ' or ch == '\u00a0':
                if has_opt and item[2]:
                    opt += 1
                else:
                    real += 1
            else:
                toks.append((real, opt, ch, item[1]))
                real = opt = 0
        return toks
    te, tg = tokens(exp, True), tokens(got, False)
    if len(te) != len(tg):
        return False
    for k, ((er, eo, ech, eit), (gr, _go, gch, git)) in enumerate(zip(te, tg)):
        if ech != gch or eit != git:
            return False
        if not er <= gr <= er + eo:
            return False
        # 'mid-char' probes (basic char, mid-row code, basic char): the mid-row code is a blank cell on the
        # screen; the reader leaves it out only in front of . ! ? , (pinned by the repository's tests), so
        # in front of every other basic character one blank must separate the two characters.  Not applied to
        # other programs: before special / extended characters (whose stand-in may be punctuation) and after
        # italic toggles the unchanged tree legitimately has no blank.
        if strict and k > 0 and er == 0 and eo >= 1 and gr == 0 and ech not in '.!?,':
            return False
    return True


def show(exp_line):
    return ''.join(('_' if o else ch) for ch, _i, o in exp_line)


def check(case, ctx):
    from pycaption import SCCReader
    prog = case['prog']
    lines, _ = G.encode_popon(prog)
    doc = G.scc_doc(lines)
    ctx.count('programs_doubled' if prog['doubled'] else 'programs_single')
    for c in prog['captions']:
        for r in c['rows']:
            for it in r['items']:
                if it[0] != 'c':
                    ctx.count('items_' + it[0])
    exp_groups = expected_captions(lines)
    try:
        reader = G.reader_for(case, ctx)
        monitor = _StateMonitor.get()
        monitor.begin()
        cs = reader.read(doc)
        ctx.counters['decoder_states_seen'] = max(ctx.counters.get('decoder_states_seen', 0), monitor.end())
    except Exception as e:
        _StateMonitor.get().end()
        return [{'what': 'SCCReader raised on a well-formed pop-on stream', 'error': repr(e)[:400], 'doc': doc}]
    caps = list(cs.get_captions('en-US'))
    exp = [c for g in exp_groups for c in g]
    fails = []
    if len(caps) != len(exp):
        return [{'what': 'number of captions differs from the reference screen model',
                 'expected': [[show(l) for l in c['lines']] for c in exp],
                 'got': [c.get_text() for c in caps], 'doc': doc}]
    # captions of one EOC share their times
    k = 0
    for g in exp_groups:
        members = caps[k:k + len(g)]
        k += len(g)
        if len(g) > 1:
            ctx.count('captions_split_by_gap', len(g))
            if len({(m.start, m.end) for m in members}) != 1:
                fails.append({'what': 'captions of one screen (non-adjacent rows) do not share their times',
                              'got': [(m.start, m.end) for m in members]})
    strict = case.get('kind') == 'mid-char'
    if strict:
        ctx.count('mid_char_probes')
    for i, (c, e) in enumerate(zip(caps, exp)):
        ctx.count('captions_compared')
        if len(e['lines']) > 1:
            ctx.count('captions_multi_row')
        ctx.count('italic_chars_expected', sum(1 for ln in e['lines'] for ch, it, _o in ln if it and ch != ' '))
        glines, problems = got_lines(c)
        for p in problems:
            fails.append({'what': 'style nodes unbalanced: ' + p, 'caption': i, 'doc': doc})
        ok = len(glines) == len(e['lines']) and all(match_line(a, b, strict) for a, b in zip(e['lines'], glines))
        if not ok:
            only_leading_break = (len(glines) == len(e['lines']) + 1 and glines[0] == []
                                  and all(match_line(a, b) for a, b in zip(e['lines'], glines[1:])))
            fails.append({'what': 'caption text / rows / italics differ from the reference screen model',
                          'caption': i, 'only_a_leading_break_differs': only_leading_break,
                          'expected': [show(l) for l in e['lines']],
                          'expected_italic': [''.join('i' if it else '.' for _c, it, _o in l) for l in e['lines']],
                          'got': [''.join(ch for ch, _ in l) for l in glines],
                          'got_italic': [''.join('i' if it else '.' for _c, it in l) for l in glines],
                          'doc': doc})
        li = c.layout_info
        want_x = 10 + 80.0 * e['col'] / 32
        want_y = 5 + 90.0 * (e['row'] - 1) / 15
        got_xy = None
        if li is not None and li.origin is not None:
            got_xy = (li.origin.x.value, li.origin.y.value, li.origin.x.unit.value, li.origin.y.unit.value)
        if got_xy is None or abs(got_xy[0] - want_x) > 1e-9 or abs(got_xy[1] - want_y) > 1e-9 \
                or got_xy[2:] != ('%', '%'):
            fails.append({'what': 'caption position is not (row, column) of its first row mapped into the safe area',
                          'caption': i, 'expected_row_col': [e['row'], e['col']],
                          'expected_xy': [want_x, want_y], 'got': got_xy, 'leading_break': glines[0] == [],
                          'doc': doc})
    return fails[:4]


def classify(case, failure):
    """Known finding: the position tracker outlives a caption, so a caption whose first row is the row
    right below the previous caption's last row is taken for a continuation (leading BREAK, previous
    position).  Only failures on such a caption whose *text* is otherwise right are explained."""
    prog = case['prog']
    i = failure.get('caption')
    if i is None:
        return None
    # map flat caption index -> (program caption index, first row of that group)
    flat = []
    for ci, c in enumerate(prog['captions']):
        rows = [r['row'] for r in c['rows']]
        groups = []
        for r in rows:
            if groups and r == groups[-1][-1] + 1:
                groups[-1].append(r)
            else:
                groups.append([r])
        for gi, g in enumerate(groups):
            flat.append((ci, gi, g))
    if i >= len(flat) or i == 0:
        return None
    ci, gi, g = flat[i]
    pci, pgi, pg = flat[i - 1]
    if ci == pci:
        return None          # same screen: not the carry-over situation
    if g[0] not in (pg[-1], pg[-1] + 1):
        return None
    what = failure.get('what', '')
    if what.startswith('caption position'):
        return 'scc-position-tracker-carried-into-next-caption'
    if what.startswith('caption text') and failure.get('only_a_leading_break_differs'):
        return 'scc-position-tracker-carried-into-next-caption'
    return None


class _StateMonitor:
    """Counts distinct abstract decoder states (active buffer, double_starter, class of the last
    command, tracker flags, last style) observed at _translate_word entry, through a wrapper
    installed once per process on the real method."""
    _inst = None

    @classmethod
    def get(cls):
        if cls._inst is None:
            cls._inst = cls()
        return cls._inst

    def __init__(self):
        from pycaption.scc import SCCReader
        self.states = set()
        self.on = False
        orig = SCCReader._translate_word
        mon = self

        def wrapped(reader, word, next_command=None):
            if mon.on:
                try:
                    tr = reader.node_creator_factory.position_tracker
                    lc = reader.last_command
                    cls_ = ('none' if not lc else 'pac+to' if ' ' in lc else 'ctl' if lc[:2] in
                            ('94', '91', '92', '13', '15', '16', '97', '10') else 'chr')
                    buf = reader.buffer
                    mon.states.add((reader.buffer_dict.active_key, reader.double_starter, cls_,
                                    tr._break_required, tr._repositioning_required, buf.last_style))
                except Exception:
                    pass
            return orig(reader, word, next_command)
        SCCReader._translate_word = wrapped

    def begin(self):
        self.on = True

    def end(self):
        self.on = False
        return len(self.states)
