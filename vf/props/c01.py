"""C01 — reading preserves every cue's start and end instant (text formats)."""
from vf import dump
from vf.gen import docs

ID = 'C01'
RULE = ('documents of the five text grammars are produced by independent serialisers from an abstract '
        'timeline (instants on a magnitude ladder 0 .. 1000h with every carry boundary +-1 unit '
        'over-sampled) with a randomly chosen legal spelling per timestamp (SRT with/without fraction, '
        '2-3 digit hours; WebVTT mm:ss.ttt / hh+:mm:ss.ttt, ids, NOTE blocks, settings, time shift x '
        'ignore_timing_errors; TTML clock time with 0-9 fraction digits or frames, offset times in '
        'h/m/s/ms/f with 0-4 decimals, end= or dur=; SAMI unquoted/quoted ms syncs, 1-3 languages, blank '
        'syncs, two P per sync; MicroDVD default or declared fps). Expected instants are computed in '
        'Fraction from the spelled fields. One case in seven is read by a reader object used before; SAMI clearing paragraphs are nbsp / blank / empty. Non-trivial: a stamp outside hour 00 or a non-default '
        'spelling/option (listed in features).')
ANCHORS = ['pycaption.srt:SRTReader._srttomicro', 'pycaption.srt:SRTReader._find_text_line',
           'pycaption.webvtt:WebVTTReader._parse_timing_line', 'pycaption.webvtt:WebVTTReader._parse_timestamp',
           'pycaption.webvtt:microseconds',
           'pycaption.dfxp.base:DFXPReader._find_and_convert_times',
           'pycaption.dfxp.base:DFXPReader._convert_clock_time_to_microseconds',
           'pycaption.dfxp.base:DFXPReader._convert_time_count_to_microseconds',
           'pycaption.sami:SAMIReader._translate_lang',
           'pycaption.microdvd:MicroDVDReader.read', 'pycaption.microdvd:MicroDVDReader._framestomicro',
           'pycaption.base:Caption.__init__']
THOROUGH_SCALE = 3        # random budgets of the thorough tier are multiplied by this
REQUIRE = {'docs_srt': 20, 'docs_webvtt': 20, 'docs_dfxp': 20, 'docs_sami': 20, 'docs_microdvd': 20,
           'feature_hour>=24': 10, 'feature_frames': 5, 'feature_dur': 5, 'feature_shift': 5,
           'feature_fps-header': 5, 'feature_blank-sync': 5, 'feature_no-fraction': 3,
           'feature_strict-timing': 5, 'stamps_compared': 500,
           'caption_init_rejections_checked': 5, 'feature_inline-lang-attribute': 3,
           'reads_by_a_reader_object_used_before': 100}
NONTRIVIAL_FEATURES = {'hour>=24', 'hour>=1', 'no-fraction', 'no-hours', 'frames', 'dur', 'shift',
                       'fps-header', 'two-p-one-sync', 'empty-cue', 'strict-timing'}


def cases(ctx):
    rng = ctx.rng('c01')
    if ctx.shard == 0:
        yield {'format': 'caption-init', 'features': ['caption-init'], 'doc': '', 'expected': []}
    fmts = sorted(docs.GENERATORS)
    for i in range(ctx.budget(12000, 400000)):
        fmt = fmts[i % len(fmts)]
        yield docs.with_prior(docs.generate(fmt, rng, f'K{ctx.shard}.{i}', ctx), rng, f'K{ctx.shard}.{i}', ctx)


def nontrivial(case):
    return any(f in NONTRIVIAL_FEATURES or f.startswith('fraction-') and f != 'fraction-3'
               or f.startswith('offset-') for f in case['features'])


def _check_caption_init(ctx):
    """Caption rejects non-numeric times (and accepts int / float / Fraction-like numbers)."""
    from fractions import Fraction
    from pycaption.base import Caption, CaptionNode
    from pycaption.exceptions import CaptionReadTimingError, CaptionReadError
    fails = []
    nodes = [CaptionNode.create_text('x')]
    for bad in ('1', None, '00:00:01.000', [1], b'1'):
        for args in ((bad, 2), (1, bad)):
            ctx.count('caption_init_rejections_checked')
            try:
                Caption(args[0], args[1], nodes)
                fails.append({'what': 'Caption accepted a non-numeric time', 'args': repr(args)})
            except CaptionReadTimingError:
                pass
            except Exception as e:
                fails.append({'what': 'Caption raised the wrong error for a non-numeric time', 'error': repr(e)})
    for good in (0, 1, 2.5, Fraction(1, 3), 10 ** 12):
        c = Caption(good, good, nodes)
        if c.start != good or c.end != good:
            fails.append({'what': 'Caption changed a numeric time', 'value': repr(good)})
    try:
        Caption(0, 1, [])
        fails.append({'what': 'Caption accepted an empty node list'})
    except CaptionReadError:
        pass
    return fails


def check(case, ctx):
    import pycaption
    fmt = case['format']
    if fmt == 'caption-init':
        return _check_caption_init(ctx)
    ctx.count('docs_' + fmt)
    for f in case['features']:
        ctx.count('feature_' + f)
    Reader = getattr(pycaption, docs.READERS[fmt])
    fails = []
    try:
        cs = docs.reader_for(case, Reader, ctx).read(case['doc'], **case['read_kwargs'])
    except Exception as e:
        return [{'what': 'reader raised on a well-formed document', 'format': fmt, 'error': repr(e)[:400]}]
    got_langs = cs.get_languages()
    for e in case['expected']:
        lang = e['lang']
        caps = list(cs.get_captions(lang))
        if lang not in got_langs and e['cues']:
            fails.append({'what': 'language missing from the result', 'lang': lang, 'got': got_langs})
            continue
        if len(caps) != len(e['cues']):
            fails.append({'what': 'number of captions differs from the number of non-empty cues',
                          'format': fmt, 'lang': lang, 'expected': len(e['cues']), 'got': len(caps),
                          'got_times': [(c.start, c.end) for c in caps][:12],
                          'expected_times': [(c['start'], c['end']) for c in e['cues']][:12]})
            continue
        for k, (c, x) in enumerate(zip(caps, e['cues'])):
            ctx.count('stamps_compared', 2)
            ends = x['end'] if isinstance(x['end'], list) else [x['end']]
            ok_types = all(isinstance(v, int) and not isinstance(v, bool) for v in (c.start, c.end))
            if c.start != x['start'] or c.end not in ends or not ok_types:
                fails.append({'what': 'caption start/end differs from the instant the document denotes',
                              'format': fmt, 'lang': lang, 'cue': k,
                              'expected': [x['start'], ends], 'got': [c.start, c.end]})
            want = dump.norm_lines(x['lines'])
            have = dump.norm_lines(dump.text_lines([dump.node(n) for n in c.nodes]))
            if want != have:
                fails.append({'what': 'cue order/identity: text of caption k is not the text of cue k',
                              'format': fmt, 'lang': lang, 'cue': k, 'expected': want, 'got': have})
            if len(fails) > 4:
                break
    for f in fails:
        f['features'] = case['features']
    return fails[:5]


def classify(case, failure):
    return None
