"""C10 — reading is a deterministic, isolated function of document and options."""
import copy

from vf import dump, worker
from vf.gen import docs, inline, sccprog
from vf.props import wcommon as W

ID = 'C10'
RULE = ('histories of 5-12 operations over 3-5 generated documents of the six input formats (rich inline text, '
        'multi-language SAMI / DFXP, pop-on / roll-up / paint-on SCC, random reader options): read with a fresh '
        'reader, read with a reader object used before, write a previous result with some writer, add_style / '
        'set_styles on a previous result, edit a caption of a previous result (style item, node content, node '
        'list, layout, adjust_caption_timing). Every read result is dumped when it is returned and again at the '
        'end of the history (unless it was edited itself); both are compared with the dump of reading that '
        'single document in pristine child processes under three PYTHONHASHSEED values drawn per case from a pool of 16. Non-trivial: >= 3 '
        'operations including an edit or a reader reuse.')
ANCHORS = ['pycaption.base:Caption.__init__', 'pycaption.base:CaptionSet.__init__',
           'pycaption.base:CaptionSet.add_style', 'pycaption.scc:SCCReader.read', 'pycaption.sami:SAMIReader.read',
           'pycaption.dfxp.base:DFXPReader.read', 'pycaption.webvtt:WebVTTReader.read', 'pycaption.srt:SRTReader.read',
           'pycaption.microdvd:MicroDVDReader.read', 'pycaption.dfxp.base:DFXPReader._convert_p_tag_to_caption',
           'pycaption.sami:SAMIReader._translate_lang']
REQUIRE = {'seed_sweep_reads': 300, 'reads': 300, 'reads_on_reused_reader': 80, 'edits': 80, 'writes_between_reads': 30,
           'results_compared_with_pristine_child': 300, 'results_rechecked_at_end': 200, 'child_processes': 10,
           'reads_scc_reused': 10, 'reads_microdvd_reused': 5, 'reads_of_ill_formed_documents_that_raised': 20, 'reads_of_styled_documents': 20, 'reads_sami_multi_language': 10, 'add_style_then_later_read': 10}
SHARDS = {'quick': 8, 'thorough': 16}
TIME_LIMIT = {'quick': 1200, 'thorough': 5400}
FORMATS = ['srt', 'webvtt', 'dfxp', 'sami', 'microdvd', 'scc']
READER = dict(docs.READERS, scc='SCCReader')


def gen_doc(rng, tag, ctx):
    fmt = rng.choice(FORMATS)
    if fmt == 'scc':
        if rng.random() < 0.6:
            lines, _ = sccprog.encode_popon(sccprog.gen_popon(rng))
        else:
            lines, _ = sccprog.encode_stream(sccprog.gen_stream(rng, rich=True))
        kw = {}
        if rng.random() < 0.2:
            kw['lang'] = 'fr'
        if rng.random() < 0.2:
            kw['simulate_roll_up'] = True
        if rng.random() < 0.25:
            kw['offset'] = rng.choice([1, 2, 30])
        return {'format': 'scc', 'doc': sccprog.scc_doc(lines), 'reader_kwargs': {}, 'read_kwargs': kw, 'nlang': 1}
    if fmt in ('sami', 'dfxp') and rng.random() < 0.3:
        d = (docs.gen_sami_styled if fmt == 'sami' else docs.gen_dfxp_styled)(rng, tag)
        return {'format': fmt, 'doc': d['doc'], 'reader_kwargs': {}, 'read_kwargs': {}, 'nlang': 1, 'styled': True}
    if fmt == 'sami' and rng.random() < 0.6:
        d = docs.generate('sami', rng, tag, ctx, text=inline.rich_lines, nlang=rng.choice([2, 3, 4]))
    elif fmt == 'dfxp' and rng.random() < 0.4:
        d = docs.generate('dfxp', rng, tag, ctx, text=inline.rich_lines, nlang=2)
    else:
        d = docs.generate(fmt, rng, tag, ctx, text=inline.rich_lines if rng.random() < 0.7 else None)
    if fmt == 'dfxp' and rng.random() < 0.4:
        # documents that name their language on <tt> differently, or not at all, and divs that do not name theirs:
        # what a reader falls back to must not depend on what it read before
        import re
        doc = d['doc'].replace('<tt xml:lang="en"', rng.choice(['<tt', '<tt', '<tt xml:lang="fr"', '<tt xml:lang="sv"']), 1)
        divs = [m for m in re.finditer(r'<div xml:lang="[^"]*"', doc)]
        if divs and rng.random() < 0.7:
            m = rng.choice(divs)
            doc = doc[:m.start()] + '<div' + doc[m.end():]
        d = dict(d, doc=doc)
    return {'format': fmt, 'doc': d['doc'], 'reader_kwargs': d['reader_kwargs'], 'read_kwargs': d['read_kwargs'],
            'nlang': len(d['expected'])}


def variant_doc(rng, d):
    import re
    doc = d['doc']
    if d['format'] == 'webvtt':
        def rev(m):
            toks = m.group(2).split()
            return m.group(1) + ' ' + ' '.join(reversed(toks)) if len(toks) > 1 else m.group(0)
        out = re.sub(r'(?m)^(.*-->[ \t]+\S+)[ \t]+(\S.*)$', rev, doc)
        if out != doc:
            return dict(d, doc=out, variant=True)
    if d['format'] == 'sami':
        m = list(re.finditer(r'(?i)<sync start="?(\d+)"?>', doc))
        k = doc.lower().rfind('</body>')
        if m and k > 0:
            last = int(m[-1].group(1))
            cls = re.search(r'(?i)<p class="?([A-Za-z0-9]+)', doc)
            if cls:
                extra = '<SYNC Start=%d><P Class=%s Style="text-align:%s;">&nbsp;</P></SYNC>\n' % (
                    last + 2000, cls.group(1), rng.choice(['right', 'left', 'center']))
                return dict(d, doc=doc[:k] + extra + doc[k:], variant=True)
    return None


def break_doc(rng, d):
    """An ill-formed variant of a generated document: the reader must raise - and a later read on the same
    reader object must not be affected by the half-finished one."""
    import re
    doc = d['doc']
    fmt = d['format']
    out = None
    if fmt == 'scc':
        # a line whose timecode is cut short, sent while a caption may still be on screen
        out = doc.rstrip('\n') + '\n\n00:00\t942f 942f\n'
    elif fmt == 'dfxp':
        k = [m.start() for m in re.finditer(r' begin="', doc)]
        if k:
            i = rng.choice(k)
            out = doc[:i] + ' bogus="' + doc[i + 8:]
    elif fmt == 'webvtt':
        m = list(re.finditer(r'(?m)^(\S+)( +--> )', doc))
        if m:
            x = rng.choice(m)
            out = doc[:x.start(1)] + 'bad' + doc[x.end(1):]
    elif fmt == 'microdvd':
        lines = doc.split('\n')
        lines.insert(rng.randrange(1, len(lines) + 1), 'this is not a MicroDVD line')
        out = '\n'.join(lines)
    elif fmt == 'srt':
        m = list(re.finditer(r'(\d\d):(\d\d),(\d\d\d) -->', doc))
        if m:
            x = rng.choice(m)
            out = doc[:x.start(2)] + 'xx' + doc[x.end(2):]
    elif fmt == 'sami':
        m = list(re.finditer(r'(?i)<sync start="?\d+"?>', doc))
        if m:
            x = rng.choice(m)
            out = doc[:x.start()] + doc[x.start():x.start() + 5] + '>' + doc[x.end():]
    if out is None:
        return None
    b = dict(d)
    b['doc'] = out
    b['broken'] = True
    return b


def cases(ctx):
    rng = ctx.rng('c10')
    for i in range(ctx.budget(16, 320)):
        # many styled documents (regions, style chains, classes) read in pristine children under six hash seeds:
        # an order taken from a set or a dict keyed by strings shows under some seeds only
        ds = []
        for k in range(10):
            d = (docs.gen_dfxp_styled if k % 2 == 0 else docs.gen_sami_styled)(rng, f'S{ctx.shard}.{i}.{k}')
            ds.append({'format': d['format'], 'doc': d['doc']})
        yield {'kind': 'seed-sweep', 'docs': ds}
    for i in range(ctx.budget(160, 5000)):
        ndocs = rng.randrange(3, 6)
        ds = [gen_doc(rng, f'Q{ctx.shard}.{i}.{k}', ctx) for k in range(ndocs)]
        if i % 4 == 0:
            # one reader object, several SCC documents: decoder state must not survive a read
            ds = []
            for k in range(ndocs):
                lines, _ = sccprog.encode_popon(sccprog.gen_popon(rng, ncaps=rng.choice([1, 2])), start_frame=1200)
                ds.append({'format': 'scc', 'doc': sccprog.scc_doc(lines), 'reader_kwargs': {},
                           'read_kwargs': {'offset': rng.choice([1, 5, 30])} if rng.random() < 0.3 else {},
                           'nlang': 1})
        reuse_p = 0.6
        if i % 4 == 1:
            # one reader object, several documents of ONE text format (e.g. MicroDVD with and without a
            # frame-rate header): nothing a read learns may survive into the next one
            f = rng.choice(['microdvd', 'microdvd', 'webvtt', 'srt', 'dfxp', 'sami'])
            ds = []
            for k in range(ndocs):
                for _ in range(50):
                    d = gen_doc(rng, f'Q{ctx.shard}.{i}.{k}', ctx)
                    if d['format'] == f and (not ds or d['reader_kwargs'] == ds[0]['reader_kwargs']):
                        ds.append(d)
                        break
            reuse_p = 0.95
        # a second document of a format already present, so that reader reuse sees two different inputs
        f0 = ds[0]['format']
        for _ in range(20):
            extra = gen_doc(rng, f'Q{ctx.shard}.{i}.x', ctx)
            if extra['format'] == f0 and extra['reader_kwargs'] == ds[0]['reader_kwargs']:
                ds.append(extra)
                break
        if rng.random() < 0.5:
            # a variant of one of the documents that says the same in another order joins the history: WebVTT cue
            # settings reversed; a SAMI document that ends with a clearing paragraph carrying an inline alignment
            v = variant_doc(rng, rng.choice(ds))
            if v is not None:
                ds.append(v)
        if rng.random() < 0.35:
            # an ill-formed variant of one of the documents joins the history
            b = break_doc(rng, rng.choice(ds))
            if b is not None:
                ds.append(b)
        ops = []
        for _ in range(rng.randrange(5, 13)):
            r = rng.random()
            if r < 0.55 or not any(o['op'] == 'read' for o in ops):
                ops.append({'op': 'read', 'doc': rng.randrange(len(ds)), 'reuse': rng.random() < reuse_p})
            elif r < 0.7:
                ops.append({'op': 'write', 'target': rng.randrange(99), 'writer': rng.choice(W.WRITERS + ['SCCWriter'])})
            else:
                ops.append({'op': 'edit', 'target': rng.randrange(99),
                            'edit': rng.choice(['add_style', 'add_style', 'caption_style', 'node_content',
                                                'node_append', 'layout', 'timing', 'set_styles'])})
        yield {'docs': ds, 'ops': ops}


def nontrivial(case):
    if case.get('kind') == 'seed-sweep':
        return True
    ops = case['ops']
    return len(ops) >= 3 and (any(o['op'] == 'edit' for o in ops) or sum(1 for o in ops if o.get('reuse')) >= 2)


def _apply_edit(cs, kind, salt):
    from pycaption.base import CaptionNode
    langs = cs.get_languages()
    caps = [c for l in langs for c in cs.get_captions(l)]
    if kind == 'add_style':
        cs.add_style('verif%d' % salt, {'color': 'red', 'italics': True})
    elif kind == 'set_styles':
        cs.set_styles({'only': {'font-size': '1c'}})
    elif kind == 'timing':
        cs.adjust_caption_timing(offset=1000, rate_skew=1.0)
    elif caps:
        c = caps[salt % len(caps)]
        if kind == 'caption_style':
            c.style['color'] = 'verif-red'
            c.style['class'] = 'verif%d' % salt
        elif kind == 'node_content':
            for n in c.nodes:
                if n.type_ == CaptionNode.TEXT:
                    n.content = 'EDITED'
                elif n.type_ == CaptionNode.STYLE and isinstance(n.content, dict):
                    n.content['verif'] = True
        elif kind == 'node_append':
            c.nodes.append(CaptionNode.create_break())
            c.nodes.append(CaptionNode.create_text('appended'))
        elif kind == 'layout':
            c.layout_info = None
            for n in c.nodes:
                n.layout_info = None


def check(case, ctx):
    import pycaption
    if case.get('kind') == 'seed-sweep':
        jobs = [{'op': 'read', 'reader': READER[d['format']], 'reader_kwargs': {}, 'read_kwargs': {}, 'doc': d['doc']}
                for d in case['docs']]
        seeds = worker.seeds_for(case, 6)
        first = None
        for seed in seeds:
            ref = worker.run_jobs(jobs, hashseed=seed)
            ctx.count('child_processes')
            ctx.count('seed_sweep_reads', len(jobs))
            if first is None:
                first = ref
                continue
            for k, (a, b) in enumerate(zip(first, ref)):
                if a != b:
                    return [{'what': 'the same document reads differently under another PYTHONHASHSEED',
                             'format': case['docs'][k]['format'], 'seeds': [seeds[0], seed],
                             'diff': _first_diff(a.get('ok'), b.get('ok')) if 'ok' in a and 'ok' in b else [a, b]}]
        return []
    readers = {}
    results = []       # (doc index, CaptionSet, dump at return or error, edited?)
    fails = []
    style_added = False
    for k, op in enumerate(case['ops']):
        if op['op'] == 'read':
            d = case['docs'][op['doc']]
            name = READER[d['format']]
            key = (name, tuple(sorted(d['reader_kwargs'].items())))
            if op['reuse'] and key in readers:
                reader = readers[key]
                ctx.count('reads_on_reused_reader')
                if d['format'] == 'scc':
                    ctx.count('reads_scc_reused')
                if d['format'] == 'microdvd':
                    ctx.count('reads_microdvd_reused')
            else:
                reader = getattr(pycaption, name)(**d['reader_kwargs'])
                if op['reuse']:
                    readers[key] = reader
            ctx.count('reads')
            if d.get('styled'):
                ctx.count('reads_of_styled_documents')
            if d['format'] == 'sami' and d['nlang'] > 1:
                ctx.count('reads_sami_multi_language')
            if style_added:
                ctx.count('add_style_then_later_read')
            try:
                cs = reader.read(d['doc'], **d['read_kwargs'])
                results.append([op['doc'], cs, ('ok', dump.caption_set(cs)), False, k])
            except Exception as e:
                results.append([op['doc'], None, ('err', type(e).__name__), False, k])
                if d.get('broken'):
                    ctx.count('reads_of_ill_formed_documents_that_raised')
        else:
            live = [r for r in results if r[1] is not None]
            if not live:
                continue
            target = live[op['target'] % len(live)]
            if op['op'] == 'write':
                ctx.count('writes_between_reads')
                try:
                    W.make_writer(op['writer']).write(target[1])
                except Exception:
                    pass
            else:
                ctx.count('edits')
                try:
                    _apply_edit(target[1], op['edit'], k)
                except Exception:
                    pass
                target[3] = True
                if op['edit'] in ('add_style', 'caption_style'):
                    style_added = True
    # isolation: untouched results still dump the same
    for docidx, cs, at_return, edited, k in results:
        if cs is not None and not edited:
            ctx.count('results_rechecked_at_end')
            now = dump.caption_set(cs)
            if now != at_return[1]:
                fails.append({'what': 'a caption set returned earlier changed although only OTHER sets were edited / written',
                              'read_op': k, 'format': case['docs'][docidx]['format'],
                              'diff': _first_diff(at_return[1], now),
                              'ops': [(o['op'], o.get('edit') or o.get('writer') or o.get('doc')) for o in case['ops']]})
    if fails:
        return fails[:3]
    jobs = [{'op': 'read', 'reader': READER[d['format']], 'reader_kwargs': d['reader_kwargs'],
             'read_kwargs': d['read_kwargs'], 'doc': d['doc']} for d in case['docs']]
    for seed in worker.seeds_for(case, 3):
        ref = worker.run_jobs(jobs, hashseed=seed)
        ctx.count('child_processes')
        for docidx, cs, at_return, edited, k in results:
            r = ref[docidx]
            ctx.count('results_compared_with_pristine_child')
            fmt = case['docs'][docidx]['format']
            if 'err' in r:
                if at_return[0] != 'err' or at_return[1] != r['err'].split(':')[0]:
                    fails.append({'what': 'a read raises in one context and not in another', 'read_op': k,
                                  'format': fmt, 'here': at_return[1] if at_return[0] == 'err' else 'returned',
                                  'pristine': r['err'][:200]})
            elif at_return[0] != 'ok':
                fails.append({'what': 'a read raises here but not in a pristine process', 'read_op': k, 'format': fmt,
                              'here': at_return[1]})
            elif at_return[1] != r['ok']:
                fails.append({'what': 'read result differs from reading the same document in a pristine process',
                              'read_op': k, 'format': fmt, 'hashseed_of_child': seed,
                              'ops_before': [(o['op'], o.get('edit') or o.get('writer') or
                                              (case['docs'][o['doc']]['format'], o['reuse']) if o['op'] == 'read' else None)
                                             for o in case['ops'][:k + 1]],
                              'diff': _first_diff(r['ok'], at_return[1])})
            if len(fails) >= 3:
                return fails
    return fails[:3]


def _first_diff(a, b, path=''):
    if type(a) != type(b):
        return {'path': path, 'pristine': repr(a)[:200], 'here': repr(b)[:200]}
    if isinstance(a, dict):
        for k in list(a) + [k for k in b if k not in a]:
            if k not in b or k not in a or a[k] != b[k]:
                return _first_diff(a.get(k), b.get(k), path + '/' + str(k))
    elif isinstance(a, list):
        if len(a) != len(b):
            return {'path': path, 'pristine_len': len(a), 'here_len': len(b),
                    'pristine': repr(a)[:200], 'here': repr(b)[:200]}
        for i, (x, y) in enumerate(zip(a, b)):
            if x != y:
                return _first_diff(x, y, path + '/%d' % i)
    return {'path': path, 'pristine': repr(a)[:200], 'here': repr(b)[:200]}
