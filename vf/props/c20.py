"""C20 — format detection is total, consistent and recognises pycaption's own output."""
import itertools
import re

from vf import dump
from vf.gen import capsets, text as T

ID = 'C20'
RULE = ('token strings: every concatenation of 1-4 (quick: 1-3 full + sampled 4) tokens from a 15-token '
        'alphabet (digit runs, letter, newline, CRLF, braces, {1}{2}, arrow, the five format markers, space, '
        'colon), random longer token strings, every prefix of hand-written and writer-produced documents '
        'of all six formats, and writer outputs of random marker-free caption sets (8 writers). '
        'Non-trivial: the string contains a marker / arrow / brace / digit-only first line, or is a '
        'writer output.')
ANCHORS = ['pycaption:detect_format', 'pycaption.srt:SRTReader.detect', 'pycaption.scc:SCCReader.detect',
           'pycaption.webvtt:WebVTTReader.detect', 'pycaption.microdvd:MicroDVDReader.detect',
           'pycaption.sami:SAMIReader.detect', 'pycaption.dfxp.base:DFXPReader.detect']
THOROUGH_SCALE = 5        # random budgets of the thorough tier are multiplied by this
REQUIRE = {'strings_checked': 2000, 'detected_DFXPReader': 5, 'detected_MicroDVDReader': 5,
           'detected_WebVTTReader': 5, 'detected_SAMIReader': 5, 'detected_SRTReader': 5,
           'detected_SCCReader': 5, 'detected_None': 5, 'writer_outputs_read_back': 50, 'writer_outputs_under_a_language_option': 30,
           'one_line_digit_inputs': 3}

ORDER = ['DFXPReader', 'MicroDVDReader', 'WebVTTReader', 'SAMIReader', 'SRTReader', 'SCCReader']
TOKENS = ['1', '42', 'a', '\n', '\r\n', '{', '}', '{1}{2}', '-->', 'WEBVTT', '<sami', '</tt>',
          'Scenarist_SCC V1.0', ' ', ':']
ODD = ['\ufeff', '\t', '\x0c', '\x0b', '\u2028', '\u2029', '\x85', '\x1c', '\x00', '\u00a0', '\u3000', '\r']

DOCS = {
    'srt': '1\n00:00:01,000 --> 00:00:02,500\nHello there\nsecond line\n\n2\n00:00:03,000 --> 00:00:04,000\nBye\n',
    'webvtt': 'WEBVTT\n\nid1\n00:01.000 --> 00:02.500 align:left\nHello <i>there</i>\n\n00:00:03.000 --> 00:00:04.000\nBye\n',
    'dfxp': ('<?xml version="1.0" encoding="utf-8"?>\n<tt xml:lang="en" xmlns="http://www.w3.org/ns/ttml">\n'
             ' <body><div xml:lang="en"><p begin="00:00:01.000" end="00:00:02.500">Hello<br/>there</p>\n'
             ' <p begin="3s" dur="1s">Bye</p></div></body>\n</tt>\n'),
    'DFXP-upper': '<TT><BODY><DIV><P BEGIN="1s" END="2s">X</P></DIV></BODY></TT>',
    'sami': ('<SAMI><HEAD><STYLE TYPE="text/css"><!--\n.ENCC {Name: English; lang: en-US;}\n--></STYLE></HEAD>\n'
             '<BODY><SYNC start=1000><P class=ENCC>Hello<br>there</P></SYNC>\n<SYNC start=2500><P class=ENCC>&nbsp;</P></SYNC>\n'
             '</BODY></SAMI>\n'),
    'microdvd': '{0}{0}25\n{25}{62}Hello|there\n{75}{100}Bye\n',
    'scc': ('Scenarist_SCC V1.0\n\n00:00:01:00\t94ae 94ae 9420 9420 9470 9470 c8e5 ecec ef80 942c 942c 942f 942f\n\n'
            '00:00:03:00\t942c 942c\n'),
}


def _marker_free(s):
    low = s.lower()
    return not ('webvtt' in low or '</tt>' in low or '<sami' in low or 'scenarist_scc' in low)


def gen_set(rng, tag, scc=False):
    n = rng.randrange(1, 5)
    if rng.random() < 0.1:
        n = rng.randrange(20, 60)           # a long document
    caps = []
    float_times = rng.random() < 0.25
    t = rng.choice([0, 40000, 1000000, 10 * 10 ** 6])
    if scc:
        t += 5 * 10 ** 6
    for i in range(n):
        dur = rng.choice([1000000, 2500000, 4000000])
        if not scc and rng.random() < 0.05:
            dur = rng.choice([0, 1000, 39000])
        if scc:
            basic = 'abcdefghijklmnopqrstuvwxyzABCDEFGHIJKLMNOPQRSTUVWXYZ0123456789.,!?'
            nodes = []
            for k in range(rng.randrange(1, 4)):
                if k:
                    nodes.append(['b'])
                L = rng.choice([1, 5, 20, 31, 32, 32, 33, 40, 64])
                s = ''
                while len(s) < L:
                    s += ''.join(rng.choice(basic) for _ in range(rng.randrange(1, 9))) + ' '
                s = s[:L].rstrip() or 'x'
                if rng.random() < 0.3:
                    s = ''.join(rng.choice(basic) for _ in range(L))
                nodes.append(['t', s])
        else:
            while True:
                nodes, lines = capsets.text_nodes(rng, f'{tag}.{i}', exclude='|', p_meta=0.3,
                                                  empty_lines=rng.choice([0.0, 0.0, 0.4]))
                if rng.random() < 0.1:
                    # letters that equal s / i / k only under Unicode case-folding (long s, dotless i, Kelvin
                    # sign): '<\u017fami' is not the SAMI marker
                    nodes += [['b'], ['t', rng.choice(['<\u017fami>', '<sam\u0131>', '<\u017fam\u0131 x', '\u017fcenarist_\u017fcc V1.0',
                                                      '</\u0287t>', '\u212aind: <\u017fami'])]]
                if rng.random() < 0.15:
                    # a row that is nothing but digits (looks like an SRT counter)
                    nodes += [['b'], ['t', rng.choice(['7', '12', '2024'])]]
                if rng.random() < 0.12:
                    # a blank row (empty or whitespace-only text) in the middle, directly followed by a
                    # digit-only row (the last row, or one more follows): a reader that ends the cue at the blank row would take
                    # the digits for a counter
                    k = rng.choice([j for j, x in enumerate(nodes) if x[0] == 't'])
                    tail = rng.choice([None, None, 'after', '00:00:01,000 --> 00:00:02,000', '9'])
                    nodes[k + 1:k + 1] = [['b'], ['t', rng.choice(['', ' ', '  ', '\t', '\u00a0'])], ['b'],
                                          ['t', rng.choice(['7', '12', '2024'])]] + \
                                         ([['b'], ['t', tail]] if tail else [])
                if all(_marker_free(x) for x in lines):
                    break
        a, b = t, t + dur
        if float_times:
            a, b = a * 1001 / 1000.0, b * 1001 / 1000.0       # the float instants an SCC read or a rate skew produces
        caps.append({'start': a, 'end': b, 'nodes': nodes, 'style': None, 'layout': None})
        t += dur + rng.choice([0, 1000000, 5000000] if not scc else [6000000, 10000000])
    langs = [{'lang': 'en-US', 'layout': None, 'captions': caps}]
    if not scc and rng.random() < 0.15:
        # a second language without captions (only the writers that address languages separately see it)
        langs.append({'lang': 'fr', 'layout': None, 'captions': []})
    return {'langs': langs, 'styles': None, 'layout': None}


WRITERS = ['SRTWriter', 'WebVTTWriter', 'DFXPWriter', 'SinglePositioningDFXPWriter', 'LegacyDFXPWriter',
           'SAMIWriter', 'MicroDVDWriter', 'SCCWriter']
READER_OF = {'SRTWriter': 'SRTReader', 'WebVTTWriter': 'WebVTTReader', 'DFXPWriter': 'DFXPReader',
             'SinglePositioningDFXPWriter': 'DFXPReader', 'LegacyDFXPWriter': 'DFXPReader',
             'SAMIWriter': 'SAMIReader', 'MicroDVDWriter': 'MicroDVDReader', 'SCCWriter': 'SCCReader'}


def cases(ctx):
    rng = ctx.rng('c20')
    idx = 0
    maxlen = 3 if ctx.tier == 'quick' else 4
    for n in range(1, maxlen + 1):
        for combo in itertools.product(range(len(TOKENS)), repeat=n):
            if n >= 3:
                # batch by the first two tokens
                if any(combo[2:]):
                    continue
                if ctx.mine(idx):
                    yield {'kind': 'tokens', 'head': list(combo[:2]), 'n': n}
            elif ctx.mine(idx):
                yield {'kind': 'string', 's': ''.join(TOKENS[i] for i in combo)}
            idx += 1
    for _ in range(ctx.budget(10000, 300000)):
        n = rng.randrange(4, 12)
        toks = [rng.choice(TOKENS + ['1', '\n', '\n', '7', 'x', '00:00:01,000 --> 00:00:02,000']) for _i in range(n)]
        yield {'kind': 'string', 's': ''.join(toks)}
    # strings made of characters that line splitting / stripping treat specially (BOM, form feed, separators)
    import itertools as _it
    for n in (1, 2, 3):
        for combo in _it.product(ODD, repeat=n):
            if n == 3 and (sum(map(ord, ''.join(combo))) % 7):
                continue
            if ctx.mine(idx):
                yield {'kind': 'string', 's': ''.join(combo)}
            idx += 1
    for o in ODD:
        for t in TOKENS:
            for s in (o + t, t + o, o + t + o, t + o + t):
                if ctx.mine(idx):
                    yield {'kind': 'string', 's': s}
                idx += 1
    for n in (2040, 2047, 2048, 2049, 4096, 10000, 70000):
        for marker, pad in (('</tt>', 'x'), ('WEBVTT', ' '), ('<sami', '\n'), ('</TT>', 'y ')):
            if ctx.mine(idx):
                yield {'kind': 'string', 's': (pad * n)[:n] + marker}
            idx += 1
    for name, doc in sorted(DOCS.items()):
        if ctx.mine(idx):
            yield {'kind': 'prefixes', 'doc': doc, 'of': name}
        idx += 1
    for i in range(ctx.budget(800, 30000)):
        w = rng.choice(WRITERS)
        case = {'kind': 'writer', 'writer': w, 'set': gen_set(rng, f'D{ctx.shard}.{i}', scc=(w == 'SCCWriter')),
                'prefixes': rng.random() < 0.3}
        langs = case['set']['langs']
        if all(l['captions'] for l in langs) and rng.random() < 0.3:
            # the language options: a language of the set, or one it does not have (the writers then fall back)
            if w in ('DFXPWriter', 'SinglePositioningDFXPWriter', 'LegacyDFXPWriter'):
                case['write_kwargs'] = {'force': rng.choice(['zz', 'zz', langs[0]['lang'], langs[-1]['lang']])}
            elif w == 'WebVTTWriter':
                case['write_kwargs'] = {'lang': rng.choice([langs[0]['lang'], langs[-1]['lang']])}
        yield case


def nontrivial(case):
    if case['kind'] in ('writer', 'prefixes', 'tokens'):
        return True
    s = case['s']
    first = s.splitlines()[0] if s.splitlines() else ''
    return bool(re.search(r'-->|WEBVTT|<sami|</tt>|Scenarist|[{}]', s) or first.isdigit())


def _detect_each(s):
    import pycaption
    res = {}
    for name in ORDER:
        cls = getattr(pycaption, name)
        try:
            res[name] = bool(cls().detect(s))
        except Exception as e:
            res[name] = e
    return res


def _check_string(s, ctx, fails, expect=None):
    import pycaption
    ctx.count('strings_checked')
    lines = s.splitlines()
    if len(lines) == 1 and lines[0].isdigit():
        ctx.count('one_line_digit_inputs')
    each = _detect_each(s)
    for name, v in each.items():
        if isinstance(v, Exception):
            fails.append({'what': f'{name}.detect raised', 'string': s[:200], 'error': repr(v)})
    want = None
    for name in ORDER:
        if each[name] is True:
            want = name
            break
    try:
        got = pycaption.detect_format(s)
    except Exception as e:
        fails.append({'what': 'detect_format raised on a non-empty string', 'string': s[:200], 'error': repr(e)})
        return None
    gotname = got.__name__ if got is not None else None
    ctx.count('detected_%s' % gotname)
    if not any(isinstance(v, Exception) for v in each.values()) and gotname != want:
        fails.append({'what': 'detect_format is not the first accepting reader in the documented order',
                      'string': s[:200], 'expected': want, 'got': gotname,
                      'each': {k: repr(v) for k, v in each.items()}})
    if expect is not None and gotname != expect:
        fails.append({'what': 'writer output not recognised as its own format', 'expected': expect,
                      'got': gotname, 'output_head': s[:300]})
    return got


def check(case, ctx):
    import pycaption
    from pycaption.dfxp.extras import SinglePositioningDFXPWriter, LegacyDFXPWriter
    from pycaption.exceptions import CaptionReadNoCaptions
    fails = []
    k = case['kind']
    if k == 'string':
        _check_string(case['s'], ctx, fails)
        return fails[:3]
    if k == 'tokens':
        head = ''.join(TOKENS[i] for i in case['head'])
        for combo in itertools.product(TOKENS, repeat=case['n'] - 2):
            _check_string(head + ''.join(combo), ctx, fails)
            if len(fails) > 3:
                break
        return fails[:3]
    if k == 'prefixes':
        doc = case['doc']
        for i in range(1, len(doc) + 1):
            _check_string(doc[:i], ctx, fails)
            if len(fails) > 3:
                break
        ctx.count('documents_truncated_at_every_char')
        try:
            pycaption.detect_format('')
            fails.append({'what': 'empty string did not raise CaptionReadNoCaptions'})
        except CaptionReadNoCaptions:
            ctx.count('empty_string_raises')
        except Exception as e:
            fails.append({'what': 'empty string raised the wrong error', 'error': repr(e)})
        return fails[:3]
    # writer output
    wname = case['writer']
    W = {'SinglePositioningDFXPWriter': SinglePositioningDFXPWriter,
         'LegacyDFXPWriter': LegacyDFXPWriter}.get(wname) or getattr(pycaption, wname)
    cs = dump.mk_caption_set(case['set'])
    if wname in ('SRTWriter', 'MicroDVDWriter') and len(case['set']['langs']) > 1:
        # these two join all languages of a set into one document: keep the single written language
        case = dict(case, set=dict(case['set'], langs=case['set']['langs'][:1]))
        cs = dump.mk_caption_set(case['set'])
    if case.get('write_kwargs'):
        ctx.count('writer_outputs_under_a_language_option')
    out = W().write(cs, **(case.get('write_kwargs') or {}))
    got = _check_string(out, ctx, fails, expect=READER_OF[wname])
    if got is not None and got.__name__ == READER_OF[wname]:
        try:
            res = got().read(out)
            n = sum(len(res.get_captions(l)) for l in res.get_languages())
            if n == 0:
                fails.append({'what': 'reader returned no captions for the writer output'})
            ctx.count('writer_outputs_read_back')
            ctx.count('read_back_' + wname)
        except Exception as e:
            fails.append({'what': 'the detected reader cannot read the writer output', 'writer': wname,
                          'error': repr(e)[:500], 'output_head': out[:400]})
    if case.get('prefixes'):
        step = max(1, len(out) // 400)
        for i in range(1, len(out), step):
            _check_string(out[:i], ctx, fails)
            if len(fails) > 3:
                break
    return fails[:3]


def classify(case, failure):
    if case['kind'] == 'writer' and case['writer'] == 'MicroDVDWriter' \
            and 'cannot read' in failure.get('what', ''):
        caps = case['set']['langs'][0]['captions']
        if any(c['start'] < 40000 and c['end'] < 40000 for c in caps) and \
                ('FPS' in failure.get('error', '') or 'CaptionReadTimingError' in failure.get('error', '')):
            return 'microdvd-frame0-cue-read-as-fps-header'
    return None
