"""C09 — writing never alters its input and is deterministic."""
import copy
import os

from vf import dump, monitors, worker
from vf.gen import capsets, geom
from vf.props import wcommon as W

ID = 'C09'
RULE = ('histories: 4-9 write operations over a pool of 2-4 rich caption sets (styles, class references, flat '
        'spans - sometimes left unclosed -, layouts in mixed units at every level, 1-3 languages) and 2-4 writer '
        'objects (all eight writers with option combinations, write(lang=) / write(force=)), each operation on a '
        'shared or a fresh writer object; the input is dumped before and after every call (also when the call '
        'raises), and every output is compared with the bytes a fresh writer produces in pristine child '
        'processes under two PYTHONHASHSEED values drawn per case from a pool of 16. Every second history is over variants of ONE document (same '
        'absolute-unit layout at caption / span / language / set level, same class names defined differently) '
        'written by writers of one class that differ only in the video size. Fault cases: for one (writer, set) the distinct pycaption '
        'source lines reached during write() are traced and an InjectedFault is raised at each (quick: a '
        'sample of 40; thorough: all), the input being compared after every fault. Histories with a near copy of an earlier set; echo probes per writer. Non-trivial: a history with '
        '>= 2 writes on one writer object, or a fault case.')
ANCHORS = ['pycaption.srt:SRTWriter.write', 'pycaption.webvtt:WebVTTWriter.write',
           'pycaption.dfxp.base:DFXPWriter.write', 'pycaption.sami:SAMIWriter.write',
           'pycaption.microdvd:MicroDVDWriter.write', 'pycaption.scc:SCCWriter.write',
           'pycaption.dfxp.extras:LegacyDFXPWriter.write',
           'pycaption.dfxp.extras:SinglePositioningDFXPWriter._create_single_positioning_caption_set',
           'pycaption.base:BaseWriter._relativize_and_fit_to_screen', 'pycaption.dfxp.base:_OrderedSet.add']
REQUIRE = {'writes_in_histories': 300, 'writes_on_reused_writer': 100, 'writes_that_raised': 10,
           'outputs_compared_with_pristine_child': 300, 'child_processes': 8, 'faults_injected': 100,
           'input_snapshots_compared': 400, 'sets_with_unclosed_span': 10,
           'reused_writer_after_set_with_language_layout': 5,
           'suite_writes_observed': 50, 'histories_over_variants_of_one_document': 40,
           'histories_with_a_near_copy_of_an_earlier_set': 20}
SHARDS = {'quick': 8, 'thorough': 16}
TIME_LIMIT = {'quick': 1200, 'thorough': 5400}
ALL_WRITERS = W.WRITERS + ['SCCWriter']


def mixed_layout(rng):
    r = rng.random()
    if r < 0.5:
        return geom.pct_layout(rng)
    if r < 0.8:
        lay = geom.rand_layout(rng, units=['px'], p_none=0.3)
    else:
        lay = geom.rand_layout(rng, p_none=0.3)
    if not any(lay.values()):
        lay['alignment'] = ['left', 'top']
    return lay


def gen_writer_cfg(rng):
    name = rng.choice(ALL_WRITERS)
    opts = {}
    kw = {}
    if name != 'LegacyDFXPWriter':
        if rng.random() < 0.5:
            opts['relativize'] = rng.choice([True, False])
        if rng.random() < 0.5:
            opts['fit_to_screen'] = rng.choice([True, False])
        if rng.random() < 0.6:
            opts.update(video_width=640, video_height=360)
    if name in ('DFXPWriter', 'SinglePositioningDFXPWriter') and rng.random() < 0.3:
        opts['write_inline_positioning'] = True
    if name == 'SinglePositioningDFXPWriter' and rng.random() < 0.5:
        opts['default_positioning'] = geom.pct_layout(rng)
    return {'writer': name, 'opts': opts}


def echo_set(rng, spec):
    """Nearly the same set again: the same texts one second later, some with a blank in front of the first line or
    after the last one, or with a break before / after the text - anything a writer keeps about an earlier
    set (by text, by time, by position) meets a set that is almost but not quite that one."""
    import copy
    out = copy.deepcopy(spec)
    out['echo'] = True
    for l in out['langs']:
        for c in l['captions']:
            c['start'] += 1000000
            c['end'] += 1000000
            texts = [n for n in c['nodes'] if n[0] == 't']
            k = rng.random()
            if not texts or k < 0.3:
                continue
            if k < 0.5:
                texts[0][1] = ' ' + texts[0][1]
            elif k < 0.65:
                texts[-1][1] = texts[-1][1] + ' '
            elif k < 0.8:
                c['nodes'].insert(0, ['b'])
            else:
                c['nodes'].append(['b'])
    return out


def gen_echo_probe(rng, tag, writer):
    """[shared writer: a set, its near copy, the set, the near copy]"""
    a = capsets.rich_set(rng, tag + '.a', layout_fn=geom.pct_layout, p_layout=0.3, max_caps=3, weird_names=False)
    b = echo_set(rng, a)
    while True:
        cfg = gen_writer_cfg(rng)
        if cfg['writer'] == writer:
            break
    return {'kind': 'history', 'sets': [a, b], 'cfgs': [cfg],
            'ops': [{'cfg': 0, 'set': k % 2, 'kw': {}, 'fresh': False} for k in range(4)]}


def gen_class_order_probe(rng, tag, writer):
    """Spans and captions that name three style classes whose rules contradict each other: the order in which
    they are merged is part of the output and must be the same under every hash seed."""
    names = rng.sample(['ka', 'kb', 'kc', 'Strong', 'emph', 'x1', 'zz9', 'q'], 3)
    flags = [{'italics': True, 'bold': False}, {'italics': False, 'bold': True, 'underline': True},
             {'underline': False, 'color': 'red'}]
    rng.shuffle(flags)
    styles = {n: dict(f) for n, f in zip(names, flags)}
    caps = []
    for k in range(3):
        order = rng.sample(names, 3)
        st = {'classes': order, 'class': ' '.join(order)}
        nodes = [['s', True, dict(st)], ['t', f'{tag}.{k} classes'], ['s', False, dict(st)], ['b'], ['t', 'plain']]
        caps.append({'start': (k + 1) * 2000000, 'end': (k + 1) * 2000000 + 1500000, 'nodes': nodes,
                     'style': dict(st) if k == 1 else None, 'layout': None})
    spec = {'langs': [{'lang': 'en-US', 'layout': None, 'captions': caps}], 'styles': styles, 'layout': None}
    while True:
        cfg = gen_writer_cfg(rng)
        if cfg['writer'] == writer:
            break
    return {'kind': 'history', 'sets': [spec], 'cfgs': [cfg],
            'ops': [{'cfg': 0, 'set': 0, 'kw': {}, 'fresh': True}, {'cfg': 0, 'set': 0, 'kw': {}, 'fresh': False}]}


def gen_history(rng, tag):
    nsets = rng.randrange(2, 5)
    sets = []
    for k in range(nsets):
        spec = capsets.rich_set(rng, f'{tag}.{k}', layout_fn=mixed_layout, p_layout=rng.choice([0.0, 0.3, 0.6]),
                                max_caps=3)
        if rng.random() < 0.2:
            # leave the last span of the last caption unclosed
            caps = spec['langs'][-1]['captions']
            nodes = caps[-1]['nodes']
            for i in range(len(nodes) - 1, -1, -1):
                if nodes[i][0] == 's' and not nodes[i][1]:
                    del nodes[i]
                    spec['unclosed'] = True
                    break
        sets.append(spec)
    if rng.random() < 0.35:
        sets.append(echo_set(rng, sets[0]))
    cfgs = [gen_writer_cfg(rng) for _ in range(rng.randrange(2, 5))]
    ops = []
    for _ in range(rng.randrange(4, 10)):
        ci = rng.randrange(len(cfgs))
        si = rng.randrange(len(sets))
        kw = {}
        langs = [l['lang'] for l in sets[si]['langs']]
        name = cfgs[ci]['writer']
        if name == 'WebVTTWriter' and rng.random() < 0.4:
            kw['lang'] = rng.choice(langs)
        if name in ('DFXPWriter', 'SinglePositioningDFXPWriter', 'LegacyDFXPWriter') and rng.random() < 0.3:
            kw['force'] = rng.choice(langs + ['zz'])
        ops.append({'cfg': ci, 'set': si, 'kw': kw, 'fresh': rng.random() < 0.3})
    return {'kind': 'history', 'sets': sets, 'cfgs': cfgs, 'ops': ops}


def gen_probe(rng, tag, writer):
    """[shared writer: loaded set, plain set, loaded set] - anything a write() leaves behind on the writer
    object (layout, span flag, last time, region creator) must not show in the next output."""
    loaded = capsets.rich_set(rng, tag + '.a', layout_fn=geom.pct_layout, p_layout=1.0, max_caps=2,
                              levels=('lang', 'caption', 'span', 'set'), weird_names=False)
    if rng.random() < 0.5:
        nodes = loaded['langs'][-1]['captions'][-1]['nodes']
        nodes.append(['s', True, {'italics': True}])
        nodes.append(['t', 'left open'])
        loaded['unclosed'] = True
    plain = capsets.simple_set(rng, tag + '.b', nlang=1, ncap=2, p_meta=0.1)
    if rng.random() < 0.5:
        # styles, but none called 'p', and captions without a class of their own
        plain['styles'] = {'hl': {'color': 'yellow'}, 'speaker': {'font-family': 'Arial', 'italics': True}}
        if 'p' not in (loaded.get('styles') or {}):
            loaded['styles'] = dict(loaded.get('styles') or {}, p={'color': 'white', 'font-size': '1c'})
    while True:
        cfg = gen_writer_cfg(rng)
        if cfg['writer'] == writer:
            break
    cfg['opts'].pop('default_positioning', None)
    if writer != 'LegacyDFXPWriter':
        cfg['opts']['relativize'] = True
    return {'kind': 'history', 'sets': [loaded, plain], 'cfgs': [cfg],
            'ops': [{'cfg': 0, 'set': 0, 'kw': {}, 'fresh': False}, {'cfg': 0, 'set': 1, 'kw': {}, 'fresh': False},
                    {'cfg': 0, 'set': 0, 'kw': {}, 'fresh': False}, {'cfg': 0, 'set': 1, 'kw': {}, 'fresh': False}]}


def gen_raise_probe(rng, tag, writer):
    """[shared writer: a set whose LAST caption carries a pixel layout (the write raises for lack of a video
    size after earlier captions were processed), then an ordinary set, then both again]."""
    bad = capsets.simple_set(rng, tag + '.a', nlang=rng.choice([1, 2]), ncap=3, p_meta=0.1)
    px = {'origin': [[64.0, 'px'], [36.0, 'px']], 'extent': None, 'padding': [[5.0, 'px']] * 4, 'alignment': None}
    bad['langs'][-1]['captions'][-1]['layout'] = px
    if rng.random() < 0.5:
        bad['langs'][-1]['layout'] = px
    good = capsets.simple_set(rng, tag + '.b', nlang=rng.choice([1, 2]), ncap=2, p_meta=0.1)
    while True:
        cfg = gen_writer_cfg(rng)
        if cfg['writer'] == writer:
            break
    for k in ('video_width', 'video_height', 'default_positioning'):
        cfg['opts'].pop(k, None)
    if writer != 'LegacyDFXPWriter':
        cfg['opts']['relativize'] = True
    return {'kind': 'history', 'sets': [bad, good], 'cfgs': [cfg],
            'ops': [{'cfg': 0, 'set': 0, 'kw': {}, 'fresh': False}, {'cfg': 0, 'set': 1, 'kw': {}, 'fresh': False},
                    {'cfg': 0, 'set': 0, 'kw': {}, 'fresh': False}, {'cfg': 0, 'set': 1, 'kw': {}, 'fresh': False}]}


FAMILY_STYLES = [{'italics': True}, {'bold': True}, {'underline': True}, {'italics': True, 'bold': True},
                 {'color': 'red'}, {'font-family': 'Arial', 'italics': False}, {'text-align': 'right'}]
VIDEO_SIZES = [(640, 360), (1280, 720), (1920, 1080), (854, 480)]


def gen_family_history(rng, tag, writer):
    """Variants of one document - the same absolute-unit layout and the same class names, but the layout
    attached at different levels (caption, span, language, set only) and the classes defined differently -
    written by writers of one class that differ only in the video size, on shared writer objects.  Anything
    remembered per class name, per layout, per writer object or per process shows as a difference from the
    bytes of the pristine child."""
    unit = rng.choice(['px', 'px', 'c', 'em', 'pt'])
    scale = {'px': 1.0, 'c': 0.05, 'em': 0.06, 'pt': 0.7}[unit]
    sz = lambda v: [round(v * scale, 2), unit]
    L = {'origin': [sz(rng.choice([32, 64, 100])), sz(rng.choice([18, 36, 50]))],
         'extent': rng.choice([None, [sz(320), sz(90)]]),
         'padding': rng.choice([None, [sz(4), sz(8), sz(12), sz(16)]]),
         'alignment': rng.choice([None, ['left', 'top'], ['center', 'bottom']])}
    L2 = copy.deepcopy(L)
    L2['origin'] = [sz(200), sz(120)]
    names = rng.sample(['k1', 'k2', 'speaker', 'hl'], 2)
    langs = rng.sample(['en', 'fr', 'de'], rng.choice([1, 2]))
    sets = []
    for v in range(rng.randrange(2, 5)):
        level = rng.choice(['caption', 'span', 'lang', 'set', 'none', 'caption'])
        styles = {names[0]: dict(rng.choice(FAMILY_STYLES)), names[1]: dict(rng.choice(FAMILY_STYLES))}
        if rng.random() < 0.3:
            styles[names[1]].update({'classes': [names[0]], 'class': names[0]})
        spec = {'langs': [], 'styles': styles, 'layout': copy.deepcopy(L) if level == 'set' else None}
        for li, lang in enumerate(langs):
            caps = []
            for ci in range(2):
                lay = copy.deepcopy(L if ci == 0 else rng.choice([L, L2])) if level == 'caption' else None
                slay = copy.deepcopy(L) if level == 'span' else None
                content = {'class': names[ci % 2]} if rng.random() < 0.7 else {'classes': list(names), 'class': names[0]}
                nodes = [['t', f'{tag}.{li}.{ci} plain '] + ([slay] if slay else []),
                         ['s', True, content] + ([slay] if slay else []),
                         ['t', 'styled words'] + ([slay] if slay else []),
                         ['s', False, content] + ([slay] if slay else [])]
                caps.append({'start': (ci + 1) * 2000000, 'end': (ci + 1) * 2000000 + 1500000, 'nodes': nodes,
                             'style': rng.choice([None, {'class': names[0]}]), 'layout': lay})
            spec['langs'].append({'lang': lang, 'layout': copy.deepcopy(L) if level == 'lang' else None,
                                  'captions': caps})
        sets.append(spec)
    cfgs = []
    for vw, vh in rng.sample(VIDEO_SIZES, 2):
        opts = {}
        if writer != 'LegacyDFXPWriter':
            opts = {'relativize': True, 'fit_to_screen': rng.random() < 0.5, 'video_width': vw, 'video_height': vh}
        if writer in ('DFXPWriter', 'SinglePositioningDFXPWriter') and rng.random() < 0.3:
            opts['write_inline_positioning'] = True
        cfgs.append({'writer': writer, 'opts': opts})
    ops = []
    for _ in range(rng.randrange(5, 10)):
        ops.append({'cfg': rng.randrange(len(cfgs)), 'set': rng.randrange(len(sets)), 'kw': {},
                    'fresh': rng.random() < 0.25})
    return {'kind': 'history', 'family': True, 'sets': sets, 'cfgs': cfgs, 'ops': ops}


def gen_level_probe(rng, tag, writer):
    """One layout attached at caption level, then ONLY at set level, then ONLY at language level, on one writer
    object and on fresh ones: whatever a write remembers about a layout (a region id, a transformed copy) - on
    the writer or anywhere in the process - shows when the layout comes back at another level."""
    L = {'origin': [[rng.choice([10.0, 12.5, 20.0]), '%'], [rng.choice([5.0, 10.0, 25.0]), '%']],
         'extent': [[40.0, '%'], [20.0, '%']], 'padding': None, 'alignment': rng.choice([None, ['left', 'top']])}
    sets = []
    for level in ('caption', 'set', 'lang', 'none'):
        caps = [{'start': (k + 1) * 2000000, 'end': (k + 1) * 2000000 + 1500000,
                 'nodes': [['t', f'{tag}.{level}.{k} words']], 'style': None,
                 'layout': copy.deepcopy(L) if level == 'caption' else None} for k in range(2)]
        sets.append({'langs': [{'lang': 'en', 'layout': copy.deepcopy(L) if level == 'lang' else None,
                                'captions': caps}],
                     'styles': None, 'layout': copy.deepcopy(L) if level == 'set' else None})
    opts = {}
    if writer != 'LegacyDFXPWriter':
        opts = {'relativize': True, 'fit_to_screen': rng.random() < 0.5, 'video_width': 640, 'video_height': 360}
    order = [0, 1, 2, 3, 1, 0, 2]
    ops = [{'cfg': 0, 'set': k, 'kw': {}, 'fresh': i >= 4 and rng.random() < 0.5} for i, k in enumerate(order)]
    return {'kind': 'history', 'family': True, 'sets': sets, 'cfgs': [{'writer': writer, 'opts': opts}], 'ops': ops}


def cases(ctx):
    rng = ctx.rng('c09')
    if ctx.shard == 0:
        yield {'kind': 'suite'}
    for k, writer in enumerate(ALL_WRITERS):
        if writer != 'SCCWriter':
            # in every shard: the state a shard process has accumulated differs from shard to shard
            yield gen_level_probe(rng, f'L{ctx.shard}.{k}', writer)
    for k, writer in enumerate(ALL_WRITERS):
        if writer != 'SCCWriter':
            yield gen_class_order_probe(rng, f'K{ctx.shard}.{k}', writer)
    for k, writer in enumerate(ALL_WRITERS):
        for rep in range(2):
            yield gen_echo_probe(rng, f'E{ctx.shard}.{k}.{rep}', writer)
    for k, writer in enumerate(ALL_WRITERS):
        if ctx.mine(k * 17 + 5):
            yield gen_raise_probe(rng, f'R{ctx.shard}.{k}', writer)
    for k, writer in enumerate(ALL_WRITERS):
        for rep in range(2 if ctx.tier == 'quick' else 20):
            if ctx.mine(k * 31 + rep):
                yield gen_probe(rng, f'P{ctx.shard}.{k}.{rep}', writer)
    for i in range(ctx.budget(160, 6000)):
        yield gen_history(rng, f'H{ctx.shard}.{i}')
        if i % 2 == 0:
            yield gen_family_history(rng, f'V{ctx.shard}.{i}', ALL_WRITERS[(i // 2 + ctx.shard) % len(ALL_WRITERS)])
        if i % 4 == 0:
            while True:
                cfg = gen_writer_cfg(rng)
                if cfg['writer'] == ALL_WRITERS[(i // 4 + ctx.shard) % len(ALL_WRITERS)]:
                    break
            spec = capsets.rich_set(rng, f'F{ctx.shard}.{i}', layout_fn=mixed_layout, p_layout=0.4, max_caps=2)
            yield {'kind': 'faults', 'cfg': cfg, 'set': spec, 'sample_seed': rng.randrange(10 ** 6)}


def nontrivial(case):
    if case['kind'] in ('faults', 'suite'):
        return True
    seen = set()
    for op in case['ops']:
        if not op['fresh']:
            if op['cfg'] in seen:
                return True
            seen.add(op['cfg'])
    return False


def _call(writer, cs, kw):
    try:
        return ('ok', writer.write(cs, **kw))
    except Exception as e:
        return ('err', type(e).__name__)


def check(case, ctx):
    fails = []
    if case['kind'] == 'faults':
        return _check_faults(case, ctx)
    if case['kind'] == 'suite':
        from vf import suite
        data = suite.run_suite()
        ctx.count('suite_writes_observed', data['counts'].get('write_observed', 0))
        ctx.note('suite_summary', data.get('summary'))
        return [{'what': v['violation'], 'test': v.get('test')} for v in data['violations']
                if v.get('property') == 'C09'][:3]
    sets = [dump.mk_caption_set(s) for s in case['sets']]
    if case.get('family'):
        ctx.count('histories_over_variants_of_one_document')
    for s in case['sets']:
        if s.get('unclosed'):
            ctx.count('sets_with_unclosed_span')
        if s.get('echo'):
            ctx.count('histories_with_a_near_copy_of_an_earlier_set')
    shared = {}
    results = []
    used = {}
    last_set_on = {}
    for k, op in enumerate(case['ops']):
        cfg = case['cfgs'][op['cfg']]
        if op['fresh']:
            w = W.make_writer(cfg['writer'], cfg['opts'])
        else:
            if op['cfg'] not in shared:
                shared[op['cfg']] = W.make_writer(cfg['writer'], cfg['opts'])
            w = shared[op['cfg']]
            used[op['cfg']] = used.get(op['cfg'], 0) + 1
            if used[op['cfg']] > 1:
                ctx.count('writes_on_reused_writer')
                prev = last_set_on.get(op['cfg'])
                if prev is not None and any(l.get('layout') for l in case['sets'][prev]['langs']) and \
                        not any(l.get('layout') for l in case['sets'][op['set']]['langs']):
                    ctx.count('reused_writer_after_set_with_language_layout')
            last_set_on[op['cfg']] = op['set']
        cs = sets[op['set']]
        before = dump.caption_set(cs)
        res = _call(w, cs, op['kw'])
        after = dump.caption_set(cs)
        ctx.count('writes_in_histories')
        ctx.count('input_snapshots_compared')
        if res[0] == 'err':
            ctx.count('writes_that_raised')
        if before != after:
            fails.append({'what': 'write() altered its input caption set', 'op': k, 'writer': cfg['writer'],
                          'opts': cfg['opts'], 'raised': res[1] if res[0] == 'err' else None,
                          'diff': _first_diff(before, after)})
        results.append(res)
    if fails:
        return fails[:3]
    # pristine references
    combos = {}
    jobs = []
    for k, op in enumerate(case['ops']):
        key = (op['cfg'], op['set'], tuple(sorted(op['kw'].items())))
        if key not in combos:
            combos[key] = len(jobs)
            cfg = case['cfgs'][op['cfg']]
            jobs.append({'op': 'write', 'writer': cfg['writer'], 'opts': cfg['opts'], 'write_kwargs': op['kw'],
                         'set': case['sets'][op['set']]})
    for seed in worker.seeds_for(case, 2):
        ref = worker.run_jobs(jobs, hashseed=seed)
        ctx.count('child_processes')
        for k, op in enumerate(case['ops']):
            key = (op['cfg'], op['set'], tuple(sorted(op['kw'].items())))
            r = ref[combos[key]]
            got = results[k]
            ctx.count('outputs_compared_with_pristine_child')
            cfg = case['cfgs'][op['cfg']]
            if 'err' in r:
                if got[0] != 'err' or got[1] != r['err'].split(':')[0]:
                    fails.append({'what': 'a write raises in one context and not in another', 'op': k,
                                  'writer': cfg['writer'], 'here': got[:2] if got[0] == 'err' else 'returned',
                                  'pristine': r['err'][:200], 'hashseed': seed})
            elif got[0] != 'ok' or got[1] != r['ok']:
                fails.append({'what': 'output differs from a fresh writer in a pristine process', 'op': k,
                              'writer': cfg['writer'], 'opts': cfg['opts'], 'kw': op['kw'], 'fresh': op['fresh'],
                              'hashseed_of_child': seed, 'history': [(o['cfg'], o['set'], o['fresh']) for o in case['ops'][:k + 1]],
                              'diff': _text_diff(r['ok'], got[1] if got[0] == 'ok' else repr(got))})
            if len(fails) >= 3:
                return fails
    return fails[:3]


def _check_faults(case, ctx):
    import pycaption
    prefix = os.path.dirname(os.path.abspath(pycaption.__file__))
    cfg = case['cfg']
    cs = dump.mk_caption_set(case['set'])
    before = dump.caption_set(cs)
    fp = monitors.Failpoints(prefix)
    lines = fp.trace(lambda: W.make_writer(cfg['writer'], cfg['opts']).write(cs))
    if dump.caption_set(cs) != before:
        return [{'what': 'write() altered its input caption set', 'writer': cfg['writer'], 'opts': cfg['opts']}]
    ctx.count('fault_lines_traced', len(lines))
    import random
    r = random.Random(case['sample_seed'])
    if ctx.tier == 'quick' and len(lines) > 40:
        lines = r.sample(lines, 40)
    fails = []
    for key in lines:
        outcome, _ = fp.inject(lambda: W.make_writer(cfg['writer'], cfg['opts']).write(cs), key)
        ctx.count('faults_injected')
        ctx.count('fault_outcome_' + outcome)
        ctx.count('input_snapshots_compared')
        after = dump.caption_set(cs)
        if after != before:
            fails.append({'what': 'input caption set altered when write() is interrupted by a fault',
                          'writer': cfg['writer'], 'opts': cfg['opts'],
                          'fault_at': [os.path.relpath(key[0], prefix), key[1]], 'diff': _first_diff(before, after)})
            cs = dump.mk_caption_set(case['set'])
            if len(fails) >= 3:
                break
    return fails


def _first_diff(a, b, path=''):
    if type(a) != type(b):
        return {'path': path, 'before': repr(a)[:200], 'after': repr(b)[:200]}
    if isinstance(a, dict):
        for k in a:
            if k not in b or a[k] != b[k]:
                return _first_diff(a[k], b.get(k), path + '/' + str(k))
    elif isinstance(a, list):
        if len(a) != len(b):
            return {'path': path, 'before_len': len(a), 'after_len': len(b)}
        for i, (x, y) in enumerate(zip(a, b)):
            if x != y:
                return _first_diff(x, y, path + '/%d' % i)
    return {'path': path, 'before': repr(a)[:200], 'after': repr(b)[:200]}


def _text_diff(a, b):
    if not isinstance(a, str) or not isinstance(b, str):
        return {'pristine': repr(a)[:200], 'here': repr(b)[:200]}
    k = next((i for i, (x, y) in enumerate(zip(a, b)) if x != y), min(len(a), len(b)))
    return {'at': k, 'pristine': a[max(0, k - 80):k + 80], 'here': b[max(0, k - 80):k + 80]}
