"""C04 — read text equals authored text: entities decoded once, markup stripped."""
from vf import dump
from vf.gen import docs, inline

ID = 'C04'
RULE = ('documents of the five text formats generated from an abstract inline model (words, metacharacters '
        'and entity-/markup-looking literals, i/b/u spans, colour spans, WebVTT voice/class/lang/ruby/'
        'timestamp tags, unknown tags with and without a known-tag prefix, source line wraps in DFXP/SAMI) '
        'by independent serialisers that pick a random legal spelling for every special character (named, '
        'decimal, hex reference, raw where legal). Expected display text is computed from the model. '
        'A break or the only blank between two words may sit alone in a styled span; lines of one character; one case in seven on a reader object used before. Non-trivial: the cue contains a reference, a tag, a wrap or a metacharacter.')
ANCHORS = ['pycaption.dfxp.base:DFXPReader._convert_tag_to_node',
           'pycaption.dfxp.base:DFXPReader._convert_span_to_nodes',
           'pycaption.dfxp.base:LayoutAwareDFXPParser.__init__',
           'pycaption.sami:SAMIParser.handle_entityref', 'pycaption.sami:SAMIParser.handle_charref',
           'pycaption.sami:SAMIParser.handle_data', 'pycaption.sami:SAMIParser.feed',
           'pycaption.sami:SAMIReader._translate_tag',
           'pycaption.webvtt:WebVTTReader._decode', 'pycaption.srt:SRTReader.read',
           'pycaption.microdvd:MicroDVDReader.read']
THOROUGH_SCALE = 4        # random budgets of the thorough tier are multiplied by this
REQUIRE = {'docs_srt': 20, 'docs_webvtt': 20, 'docs_dfxp': 20, 'docs_sami': 20, 'docs_microdvd': 20,
           'lines_compared': 2000, 'lines_with_reference': 200, 'lines_with_inline_tag': 100,
           'lines_with_unknown_tag': 10, 'lines_with_voice': 5, 'lines_with_double_escape': 20,
           'lines_with_leading_layout_whitespace': 10, 'reads_by_a_reader_object_used_before': 100}


def cases(ctx):
    rng = ctx.rng('c04')
    fmts = sorted(docs.GENERATORS)
    for i in range(ctx.budget(9000, 300000)):
        fmt = fmts[i % len(fmts)]
        yield docs.with_prior(docs.generate(fmt, rng, f'R{ctx.shard}.{i}', ctx, text=inline.rich_lines), rng,
                              f'R{ctx.shard}.{i}', ctx, text=inline.rich_lines)


def _segs_of(case):
    for e in case['expected']:
        for c in e['cues']:
            for ln in c['segs']:
                yield ln


def nontrivial(case):
    for ln in _segs_of(case):
        for seg in ln:
            if seg[0] != 't' or any(ch in seg[1] for ch in '&<>"\''):
                return True
    return False


def display_if_wrapped_text_truncated(line):
    """What the known finding (text after the first source newline of a text run is dropped)
    would make of this line."""
    out = ''
    dropping = False
    for seg in line:
        k = seg[0]
        if k == 't':
            if not dropping:
                out += seg[1]
        elif k == 'wrap':
            dropping = True
        else:
            dropping = False
            if k == 'o' and seg[1] == 'v':
                out += seg[2] + ': '
            elif k == 'unk':
                out += seg[1]
    return out


def check(case, ctx):
    import pycaption
    fmt = case['format']
    ctx.count('docs_' + fmt)
    Reader = getattr(pycaption, docs.READERS[fmt])
    try:
        cs = docs.reader_for(case, Reader, ctx).read(case['doc'], **case['read_kwargs'])
    except Exception as e:
        return [{'what': 'reader raised on a well-formed document', 'format': fmt, 'error': repr(e)[:400]}]
    fails = []
    for e in case['expected']:
        caps = list(cs.get_captions(e['lang']))
        if len(caps) != len(e['cues']):
            fails.append({'what': 'number of captions differs from the number of non-empty cues',
                          'format': fmt, 'lang': e['lang'], 'expected': len(e['cues']), 'got': len(caps)})
            continue
        for k, (c, x) in enumerate(zip(caps, e['cues'])):
            want = dump.norm_lines(x['lines'])
            nodes = [dump.node(n) for n in c.nodes]
            have = dump.norm_lines(dump.text_lines(nodes))
            have2 = dump.norm_lines(c.get_text().split('\n'))
            ctx.count('lines_compared', len(want))
            for ln in x['segs']:
                kinds = {s[0] for s in ln}
                if 'o' in kinds or 'ts' in kinds:
                    ctx.count('lines_with_inline_tag')
                if 'lead' in kinds:
                    ctx.count('lines_with_leading_layout_whitespace')
                if 'unk' in kinds:
                    ctx.count('lines_with_unknown_tag')
                if any(s[0] == 'o' and s[1] == 'v' for s in ln):
                    ctx.count('lines_with_voice')
                txt = ''.join(s[1] for s in ln if s[0] == 't')
                if fmt not in ('srt', 'microdvd') and any(ch in txt for ch in '&<'):
                    ctx.count('lines_with_reference')
                if fmt not in ('srt', 'microdvd') and any(m in txt for m in ('&amp;', '&lt;', '&gt;', '&#')):
                    ctx.count('lines_with_double_escape')
            if want != have or want != have2:
                fails.append({'what': 'caption text differs from what a conformant consumer displays',
                              'format': fmt, 'lang': e['lang'], 'cue': k, 'expected': want, 'got': have,
                              'get_text': have2, 'segs': x['segs']})
            if len(fails) >= 3:
                break
    return fails[:3]


def classify(case, failure):
    if failure.get('what', '').startswith('caption text differs') and case['format'] in ('dfxp', 'sami'):
        segs = failure['segs']
        if any(s[0] == 'wrap' for ln in segs for s in ln):
            alt = dump.norm_lines([display_if_wrapped_text_truncated(ln) for ln in segs])
            if alt == failure['got'] == failure['get_text']:
                return 'dfxp-sami-wrapped-text-truncated'
    return None
