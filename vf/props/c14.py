"""C14 — each language's captions stay under their language, in document order."""
import re

from vf import dump, worker
from vf.gen import capsets, docs, inline
from vf.props import wcommon as W
from vf.ref import parsers

ID = 'C14'
RULE = ('(a) batches of generated DFXP documents (1-4 divs, at most one without xml:lang, tt xml:lang present or '
        'not) and SAMI documents (1-4 languages via class rules, occasionally a prefix pair such as pt / pt-BR) '
        'read in pristine child processes under PYCAPTION_DEFAULT_LANG unset / en-US / fr and three hash '
        'seeds; (b) API-built sets with 1-4 languages whose cues are sorted and non-overlapping per language and '
        'interleave / coincide / are disjoint across languages, written by DFXPWriter (force=), SAMIWriter and '
        'WebVTTWriter (lang=), outputs parsed independently and read back; (c) reader lang= for SRT / WebVTT / '
        'MicroDVD. Every line carries a unique tag naming its language. A third of the API sets share style classes across languages. Non-trivial: >= 2 languages.')
ANCHORS = ['pycaption.dfxp.base:DFXPReader.read', 'pycaption.dfxp.base:DFXPWriter.write',
           'pycaption.sami:SAMIParser._find_lang', 'pycaption.sami:SAMIParser.handle_starttag',
           'pycaption.sami:SAMIReader.read', 'pycaption.sami:SAMIReader._translate_lang',
           'pycaption.sami:SAMIWriter._recreate_sync', 'pycaption.sami:SAMIWriter._find_closest_sync',
           'pycaption.sami:SAMIWriter._recreate_blank_tag', 'pycaption.sami:SAMIWriter._recreate_p_lang',
           'pycaption.webvtt:WebVTTWriter.write']
ANCHORS_OPTIONAL = ('pycaption.dfxp.base:DFXPReader.read', 'pycaption.sami:SAMIParser._find_lang',
                    'pycaption.sami:SAMIParser.handle_starttag', 'pycaption.sami:SAMIReader.read',
                    'pycaption.sami:SAMIReader._translate_lang')   # also run in child processes
THOROUGH_SCALE = 4        # random budgets of the thorough tier are multiplied by this
REQUIRE = {'sets_whose_first_language_is_empty': 30, 'dfxp_documents_round_tripped': 20, 'sami_documents_round_tripped': 20,
           'sets_whose_languages_share_all_timespans': 50, 'dfxp_writes_LegacyDFXPWriter': 20,
           'dfxp_writes_SinglePositioningDFXPWriter': 20, 'child_batches': 3, 'dfxp_docs_read': 30, 'sami_docs_read': 30, 'div_without_lang': 5,
           'default_lang_env_used': 2, 'sets_written_dfxp': 50, 'sets_written_sami': 50, 'webvtt_lang_option': 30,
           'force_option': 20, 'sami_secondary_language_syncs_inserted': 30, 'reader_lang_option': 20,
           'languages_compared': 300, 'hash_seeds_used': 2, 'webvtt_lang_absent': 10,
           'multi_language_sets_whose_cues_share_style_classes': 100,
           'sami_clearing_paragraphs_checked': 200}
SHARDS = {'quick': 8, 'thorough': 16}


# ------------------------------------------------------------------------------- generators

def gen_dfxp_multi(rng, tag):
    n = rng.choice([1, 2, 2, 3, 4])
    langs = rng.sample(['en', 'fr', 'de', 'es-419', 'pt-BR', 'pt', 'ja', 'it'], n)
    tt_lang = rng.choice([None, 'en', 'sv', 'zz'])
    unlabelled = rng.randrange(n) if rng.random() < 0.4 else None
    if tt_lang in langs:
        tt_lang = 'sv'
    doc = '<?xml version="1.0" encoding="utf-8"?>\n<tt xmlns="http://www.w3.org/ns/ttml"'
    if tt_lang:
        doc += ' xml:lang="%s"' % tt_lang
    doc += '>\n<body>\n'
    expected = []
    for i, lang in enumerate(langs):
        lab = None if i == unlabelled else lang
        doc += ' <div%s>\n' % (' xml:lang="%s"' % lab if lab else '')
        cues = []
        t = rng.choice([0, 1, 5]) * 1000000
        for k in range(rng.randrange(1, 4)):
            text = f'{tag}.L{i}.{k} word'
            doc += '  <p begin="%dms" end="%dms">%s</p>\n' % (t // 1000, t // 1000 + 900, text)
            cues.append(text)
            t += rng.choice([1, 2, 7]) * 1000000
        doc += ' </div>\n'
        expected.append({'label': lab, 'tt_lang': tt_lang, 'cues': cues})
    doc += '</body>\n</tt>\n'
    return {'format': 'dfxp', 'doc': doc, 'expected': expected, 'unlabelled': unlabelled is not None}


SAMI_EXTRA = [('PTCC', 'pt'), ('PBCC', 'pt-BR'), ('ENGB', 'en-GB'), ('ENXX', 'en')]


def gen_sami_multi(rng, tag):
    pool = list(docs.SAMI_LANGS)
    prefix_pair = rng.random() < 0.15
    save = docs.SAMI_LANGS[:]
    try:
        while True:
            if prefix_pair:
                docs.SAMI_LANGS[:] = [('PTCC', 'pt'), ('PBCC', 'pt-BR')] + pool[:2]
                d = docs.gen_sami(rng, tag, nlang=rng.choice([2, 3]), same_sync_twice=0.05)
            else:
                d = docs.gen_sami(rng, tag, nlang=rng.choice([1, 2, 3, 4]), same_sync_twice=0.05)
            if any(e['cues'] for e in d['expected']) and docs.validate(d) is None:
                break
    finally:
        docs.SAMI_LANGS[:] = save
    langs = [e['lang'] for e in d['expected']]
    d['prefix_pair'] = any(a != b and (b.startswith(a + '-')) for a in langs for b in langs)
    return d


def gen_multi_set(rng, tag):
    n = rng.choice([1, 2, 2, 3, 4])
    langs = rng.sample(['en-US', 'en', 'fr', 'de', 'es', 'pt-BR', 'it', 'ja', 'fi', 'fil', 'est', 'eng'], n)
    pool = sorted({capsets.instant(rng, below_h=rng.choice([2, 24]), grid=1000) for _ in range(10)})
    spec = {'langs': [], 'styles': None, 'layout': None}
    for li, lang in enumerate(langs):
        k = rng.randrange(1, 5)
        mode = rng.choice(['pool', 'pool', 'own'])
        if mode == 'pool' and len(pool) >= 2:
            starts = sorted(rng.sample(pool, min(k, len(pool))))
        else:
            starts = sorted({capsets.instant(rng, below_h=24, grid=1000) for _ in range(k)})
        caps = []
        for ci, st in enumerate(starts):
            nxt = starts[ci + 1] if ci + 1 < len(starts) else st + 5000000
            end = st + rng.choice([1000, 500000, nxt - st]) if nxt > st else st + 1000
            end = min(end, nxt)
            if end <= st:
                end = st + 1000 if st + 1000 <= nxt else nxt
            caps.append({'start': st, 'end': max(end, st), 'nodes': [['t', f'{tag}.{lang}.{ci} text']],
                         'style': None, 'layout': None})
        # strictly sorted, non-overlapping
        ok = all(a['end'] <= b['start'] and a['start'] < b['start'] for a, b in zip(caps, caps[1:]))
        if not ok:
            caps = caps[:1]
        spec['langs'].append({'lang': lang, 'layout': None, 'captions': caps})
    if len(langs) > 1 and rng.random() < 0.35:
        # translations of one programme: every language has exactly the timespans of the first one
        first = spec['langs'][0]['captions']
        for l in spec['langs'][1:]:
            l['captions'] = [{'start': c['start'], 'end': c['end'], 'nodes': [['t', f"{tag}.{l['lang']}.{ci} text"]],
                              'style': None, 'layout': None} for ci, c in enumerate(first)]
        spec['parallel'] = True
    elif len(langs) > 1 and rng.random() < 0.12:
        # a language without captions in front of the others (e.g. a SAMI class whose paragraphs are all blank)
        spec['langs'][0]['captions'] = []
        spec['empty_first'] = True
    if rng.random() < 0.3:
        # cues of every language share style classes of the set (classes that say nothing about a language)
        spec['styles'] = {'dialogue': {'color': 'white', 'font-family': 'Arial'}, 'song': {'italics': True}}
        for l in spec['langs']:
            for c in l['captions']:
                if rng.random() < 0.8:
                    c['style'] = {'class': rng.choice(['dialogue', 'dialogue', 'song'])}
        spec['shared_classes'] = True
    return spec


def cases(ctx):
    rng = ctx.rng('c14')
    # (a) child-process batches
    envs = [None, 'en-US', 'fr']
    seeds = ['0', '1', '12345']
    nb = ctx.budget(18, 300)
    for b in range(nb):
        jobs = []
        for k in range(14):
            tag = f'B{ctx.shard}.{b}.{k}'
            jobs.append(gen_dfxp_multi(rng, tag) if k % 2 == 0 else gen_sami_multi(rng, tag))
        yield {'kind': 'child', 'env': envs[(b + ctx.shard) % 3], 'hashseed': seeds[(b // 3 + ctx.shard) % 3], 'docs': jobs}
    for i in range(ctx.budget(600, 20000)):
        # documents read and written back in the same format: every language keeps its cues
        tag = f'T{ctx.shard}.{i}'
        d = gen_dfxp_multi(rng, tag) if i % 2 == 0 else gen_sami_multi(rng, tag)
        if not d.get('prefix_pair'):
            yield {'kind': 'doc-roundtrip', 'doc': d}
    for i in range(ctx.budget(5000, 150000)):
        tag = f'M{ctx.shard}.{i}'
        r = rng.random()
        if r < 0.35:
            spec = gen_multi_set(rng, tag)
            langs = [l['lang'] for l in spec['langs']]
            force = rng.choice(['', '', rng.choice(langs), 'xx', rng.choice(langs).upper(), rng.choice(langs).lower()])
            yield {'kind': 'dfxp-write', 'set': spec, 'force': force,
                   'writer': rng.choice(['DFXPWriter', 'DFXPWriter', 'SinglePositioningDFXPWriter', 'LegacyDFXPWriter'])}
        elif r < 0.7:
            yield {'kind': 'sami-write', 'set': gen_multi_set(rng, tag)}
        elif r < 0.85:
            spec = gen_multi_set(rng, tag)
            langs = [l['lang'] for l in spec['langs']]
            yield {'kind': 'webvtt-write', 'set': spec, 'lang': rng.choice([None] + langs + ['xx', langs[0] + '-ZZ'])}
        else:
            fmt = rng.choice(['srt', 'webvtt', 'microdvd'])
            d = docs.generate(fmt, rng, tag, ctx)
            d['read_kwargs'] = {'lang': rng.choice(['en-US', 'fr', 'x-klingon', 'pt-BR'])}
            yield {'kind': 'reader-lang', 'format': fmt, 'doc': d['doc'], 'reader_kwargs': d['reader_kwargs'],
                   'read_kwargs': d['read_kwargs'], 'ncues': len(d['expected'][0]['cues'])}


def nontrivial(case):
    if case['kind'] == 'child':
        return True
    if case['kind'] in ('reader-lang', 'doc-roundtrip'):
        return True
    return len(case['set']['langs']) >= 2


def _lang_texts(dumped):
    return [(l['lang'], [dump.norm_line(''.join(n[1] for n in c['nodes'] if n[0] == 't')) for c in l['captions']])
            for l in dumped['langs']]


def check(case, ctx):
    import pycaption
    kind = case['kind']
    fails = []
    if case.get('set', {}).get('shared_classes') and len(case['set']['langs']) > 1:
        ctx.count('multi_language_sets_whose_cues_share_style_classes')
    if kind == 'child':
        jobs = [{'op': 'default_lang'}]
        for d in case['docs']:
            jobs.append({'op': 'read', 'reader': 'DFXPReader' if d['format'] == 'dfxp' else 'SAMIReader',
                         'doc': d['doc']})
        env = {'PYCAPTION_DEFAULT_LANG': case['env']} if case['env'] else None
        res = worker.run_jobs(jobs, hashseed=case['hashseed'], env_extra=env)
        ctx.count('child_batches')
        ctx.count('hash_seeds_used_' + case['hashseed'])
        ctx.counters['hash_seeds_used'] = len([k for k in ctx.counters if k.startswith('hash_seeds_used_')])
        default = res[0].get('ok')
        want_default = case['env'] or 'und'
        if default != want_default:
            fails.append({'what': 'configured default language not honoured', 'expected': want_default, 'got': default})
        if case['env']:
            ctx.count('default_lang_env_used')
        for d, r in zip(case['docs'], res[1:]):
            if 'err' in r:
                fails.append({'what': 'reader raised in the child', 'error': r['err'], 'format': d['format']})
                continue
            got = _lang_texts(r['ok'])
            if d['format'] == 'dfxp':
                ctx.count('dfxp_docs_read')
                if d['unlabelled']:
                    ctx.count('div_without_lang')
                want = []
                for e in d['expected']:
                    lang = e['label'] or e['tt_lang'] or want_default
                    want.append((lang, [dump.norm_line(x) for x in e['cues']]))
            else:
                ctx.count('sami_docs_read')
                want = [(e['lang'], [dump.norm_line(' '.join(c['lines'])) for c in e['cues']]) for e in d['expected']]
                got = [(l, [dump.norm_line(t) for t in ts]) for l, ts in got]
            ctx.count('languages_compared', len(want))
            if len({l for l, _ in want}) != len(want):
                continue        # the fallback language collides with a labelled div: outside the domain
            if [l for l, _ in got] != [l for l, _ in want]:
                fails.append({'what': 'languages not listed in order of first appearance in the document',
                              'format': d['format'], 'expected': [l for l, _ in want], 'got': [l for l, _ in got],
                              'hashseed': case['hashseed'], 'env': case['env'], 'prefix_pair': d.get('prefix_pair')})
                continue
            for (l, w), (_, g) in zip(want, got):
                if [x.replace(' ', '') for x in w] != [x.replace(' ', '').replace('\n', '') for x in g]:
                    fails.append({'what': 'a language does not hold exactly its own cues in order',
                                  'format': d['format'], 'lang': l, 'expected': w, 'got': g,
                                  'prefix_pair': d.get('prefix_pair'), 'all_langs': [x for x, _ in want]})
        return fails[:4]
    if kind == 'doc-roundtrip':
        from pycaption.base import DEFAULT_LANGUAGE_CODE
        d = case['doc']
        if d['format'] == 'dfxp':
            want = [(e['label'] or e['tt_lang'] or DEFAULT_LANGUAGE_CODE, [dump.norm_line(x) for x in e['cues']])
                    for e in d['expected']]
            if len({l for l, _ in want}) != len(want):
                return []
            out = pycaption.DFXPWriter().write(pycaption.DFXPReader().read(d['doc']))
            doc = parsers.parse_ttml(out)
            got = [(dv['lang'], [dump.norm_line(' '.join(p['lines'])) for p in dv['ps']]) for dv in doc['divs']]
            ctx.count('dfxp_documents_round_tripped')
        else:
            want = [(e['lang'], [dump.norm_line(' '.join(c['lines'])) for c in e['cues']]) for e in d['expected']
                    if e['cues']]
            out = pycaption.SAMIWriter().write(pycaption.SAMIReader().read(d['doc']))
            doc = parsers.parse_sami(out)
            per, order = {}, []
            for sy in doc['syncs']:
                for p in sy['ps']:
                    if not p['blank']:
                        if p['lang'] not in per:
                            order.append(p['lang'])
                        per.setdefault(p['lang'], []).append(dump.norm_line(' '.join(p['lines'])))
            got = [(l, per[l]) for l in order]
            want = sorted(want)
            got = sorted(got)
            ctx.count('sami_documents_round_tripped')
        ctx.count('languages_compared', len(want))
        if got != want:
            fails.append({'what': 'a document written back in its own format does not keep every language\'s cues',
                          'format': d['format'], 'expected': want, 'got': got})
        return fails
    if kind == 'reader-lang':
        name = docs.READERS[case['format']]
        cs = getattr(pycaption, name)(**case['reader_kwargs']).read(case['doc'], **case['read_kwargs'])
        ctx.count('reader_lang_option')
        lang = case['read_kwargs']['lang']
        if cs.get_languages() != [lang] or len(cs.get_captions(lang)) != case['ncues']:
            fails.append({'what': 'reader lang= does not select exactly the named language', 'expected': lang,
                          'got': cs.get_languages()})
        return fails
    spec = case['set']
    cs = dump.mk_caption_set(spec)
    langs = [l['lang'] for l in spec['langs']]
    texts = {l['lang']: [c['nodes'][0][1] for c in l['captions']] for l in spec['langs']}
    ctx.count('languages_compared', len(langs))
    if spec.get('parallel'):
        ctx.count('sets_whose_languages_share_all_timespans')
    if spec.get('empty_first'):
        ctx.count('sets_whose_first_language_is_empty')
    if kind == 'webvtt-write':
        ctx.count('webvtt_lang_option')
        kw = {'lang': case['lang']} if case['lang'] else {}
        out = pycaption.WebVTTWriter().write(cs, **kw)
        cues = parsers.parse_webvtt(out)
        want = texts.get(case['lang'], []) if case['lang'] else texts[langs[0]]
        if not case['lang'] and not want:
            # no language named and the first one is empty: which language is written then is open, but it is
            # one language, whole
            got0 = [' '.join(c['lines']) for c in cues]
            if any(got0 == texts[l] for l in langs):
                ctx.count('webvtt_default_language_with_empty_first')
                return fails
        if case['lang'] and case['lang'] not in langs:
            ctx.count('webvtt_lang_absent')
        got = [' '.join(c['lines']) for c in cues]
        if got != want:
            fails.append({'what': 'WebVTT lang= does not write exactly the named language', 'lang': case['lang'],
                          'expected': want, 'got': got})
        return fails
    if kind == 'dfxp-write':
        ctx.count('sets_written_dfxp')
        kw = {'force': case['force']} if case['force'] else {}
        if case['force']:
            ctx.count('force_option')
        wname = case.get('writer', 'DFXPWriter')
        ctx.count('dfxp_writes_' + wname)
        out = W.make_writer(wname, {}).write(cs, **kw)
        doc = parsers.parse_ttml(out)
        want_langs = [case['force']] if case['force'] in langs else langs
        got = [(d['lang'], [dump.norm_line(' '.join(p['lines'])) for p in d['ps']]) for d in doc['divs']]
        want = [(l, texts[l]) for l in want_langs]
        if wname == 'LegacyDFXPWriter' and case['force'] and case['force'] not in langs and len(got) == 1 \
                and got[0] in want:
            # the legacy writer always narrows the document to ONE language when force= is given (the last one
            # if the named language is absent); the statement only speaks of a named language that exists
            ctx.count('legacy_writer_absent_force_one_language')
            want = got
        if got != want:
            fails.append({'what': 'DFXP output divs are not the selected languages with their own cues in order',
                          'force': case['force'], 'expected': want, 'got': got})
            return fails
        from pycaption.exceptions import CaptionReadNoCaptions
        try:
            back = _lang_texts(dump.caption_set(pycaption.DFXPReader().read(out)))
        except CaptionReadNoCaptions:
            back = []
        # a language without captions may or may not survive the read (an empty div holds nothing to keep)
        back = [x for x in back if x[1]]
        want = [x for x in want if x[1]]
        if back != want:
            fails.append({'what': 'reading the DFXP output back changes languages / cues',
                          'expected': want, 'got': back})
        return fails
    # SAMI
    ctx.count('sets_written_sami')
    out = pycaption.SAMIWriter().write(cs)
    doc = parsers.parse_sami(out)
    starts = [s['start_ms'] for s in doc['syncs']]
    if any(a > b for a, b in zip(starts, starts[1:])):
        fails.append({'what': 'SAMI SYNC blocks are not in non-decreasing time order', 'starts': starts[:30],
                      'set_times': {l['lang']: [(c['start'] // 1000, c['end'] // 1000) for c in l['captions']]
                                    for l in spec['langs']}})
    primary_starts = {c['start'] // 1000 for c in spec['langs'][0]['captions']} | \
                     {c['end'] // 1000 for c in spec['langs'][0]['captions']}
    first_seen = []
    per = {}
    for s in doc['syncs']:
        for p in s['ps']:
            if p['lang'] not in first_seen:
                first_seen.append(p['lang'])
            if not p['blank']:
                per.setdefault(p['lang'], []).append((s['start_ms'], dump.norm_line(' '.join(p['lines']))))
    # a clearing (blank) paragraph belongs to the language whose cue ends there
    blanks = {}
    for s_ in doc['syncs']:
        for p in s_['ps']:
            if p['blank']:
                blanks.setdefault(p['lang'], []).append(s_['start_ms'])
    for l in spec['langs']:
        ends = {c['end'] // 1000 for c in l['captions']}
        stray = [ms for ms in blanks.get(l['lang'], []) if ms not in ends]
        ctx.count('sami_clearing_paragraphs_checked', len(blanks.get(l['lang'], [])))
        # ... and every cue followed by a gap (the next cue of the language does not start at its end) is cleared
        caps = l['captions']
        missing = [c['end'] // 1000 for c, n in zip(caps, caps[1:])
                   if c['end'] // 1000 != n['start'] // 1000 and c['end'] // 1000 not in blanks.get(l['lang'], [])]
        if missing:
            fails.append({'what': 'a cue that is followed by a gap has no clearing paragraph of its language at its end',
                          'lang': l['lang'], 'at_ms': missing[:5], 'clearing_paragraphs_ms': blanks.get(l['lang'], [])[:10]})
        if stray:
            fails.append({'what': 'a clearing paragraph is filed under a language none of whose cues ends at that time',
                          'lang': l['lang'], 'at_ms': stray[:5], 'cue_ends_ms': sorted(ends)[:10]})
    for l in spec['langs'][1:]:
        for c in l['captions']:
            if c['start'] // 1000 not in primary_starts:
                ctx.count('sami_secondary_language_syncs_inserted')
    for l in spec['langs']:
        want = [(c['start'] // 1000, c['nodes'][0][1]) for c in l['captions']]
        if per.get(l['lang'], []) != want:
            fails.append({'what': 'a language\'s paragraphs are not each in the SYNC of their start time, in order',
                          'lang': l['lang'], 'expected': want, 'got': per.get(l['lang'], [])[:10]})
    if fails:
        return fails[:3]
    back = _lang_texts(dump.caption_set(pycaption.SAMIReader().read(out)))
    want_back = [(l, texts[l]) for l in first_seen]
    if [l for l, _ in back] != first_seen:
        fails.append({'what': 'SAMI read-back does not list languages in order of first appearance in the document',
                      'expected': first_seen, 'got': [l for l, _ in back]})
    elif back != want_back:
        prefix = any(a != b and b.startswith(a + '-') for a in langs for b in langs)
        fails.append({'what': 'reading the SAMI output back moves cues between languages', 'expected': want_back,
                      'got': back, 'prefix_pair': prefix, 'all_langs': langs})
    return fails[:3]


def classify(case, failure):
    """Known finding: SAMIReader selects paragraphs with p[lang|=X], so language X also collects the cues of
    X-something when both are present."""
    if failure.get('prefix_pair') and failure.get('what') in (
            'a language does not hold exactly its own cues in order',
            'reading the SAMI output back moves cues between languages'):
        return 'sami-language-prefix-selects-sublanguages'
    return None
