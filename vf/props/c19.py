"""C19 — timing adjustment and concurrent-caption merging keep all text in order."""
import copy
from fractions import Fraction

from vf import dump
from vf.gen import capsets

ID = 'C19'
RULE = ('random caption sets (1-3 languages, 0-7 captions, runs of identical (start,end) of every '
        'length placed at the start / middle / end, near-runs that share only the start or only the '
        'end, integer and float times, nodes with text/break/style), built in one go or in stages (first k '
        'languages, observer calls, the others through set_captions) x {adjust_caption_timing with skew '
        'in (0,4] and offsets of both signs (including offsets that land inside a caption, exactly on a '
        'start, and beyond every caption), merge_concurrent_captions applied twice}. Non-trivial: the '
        'set has a run of >= 2 equal timespans or a near-run (merge), or at least one caption is dropped '
        'or a boundary offset is used (adjust).')
ANCHORS = ['pycaption.base:CaptionSet.adjust_caption_timing',
           'pycaption.base:merge_concurrent_captions', 'pycaption.base:merge']
THOROUGH_SCALE = 8        # random budgets of the thorough tier are multiplied by this
REQUIRE = {'adjust_dropped_some': 5, 'adjust_dropped_all': 1, 'merge_runs': 10,
           'merge_near_runs': 5, 'merge_run_at_start': 2, 'merge_run_at_end': 2,
           'captions_without_visible_text': 50, 'captions_ending_with_break': 50,
           'sets_observed_before_a_language_was_added': 50,
           'adjust_calls_relying_on_a_default': 50}

SKEWS = [1, 1.0, 0.5, 2, 4, 0.25, 1.5, 1.001, 0.999, 1.1, 3.999, 0.04]


def gen_set(rng, tag):
    nl = rng.choice([1, 1, 2, 3])
    spec = {'langs': [], 'styles': None, 'layout': None}
    names = rng.sample(['en', 'fr', 'de', 'und', 'und'], nl)
    if len(set(names)) < nl:
        names = ['und', 'en', 'fr'][:nl]
    for li in range(nl):
        n = rng.choice([0, 1, 2, 3, 4, 5, 7])
        float_times = rng.random() < 0.25
        caps = []
        t = rng.choice([0, 0, 1000, 500000, 3600 * 10 ** 6])
        i = 0
        while i < n:
            dur = rng.choice([0, 1, 1000, 1500000, 4000000])
            a, b = t, t + dur
            if float_times:
                a, b = a * 1001 / 30.0, b * 1001 / 30.0
            run = 1
            r = rng.random()
            if r < 0.35:
                run = rng.randrange(2, 5)
            for j in range(run):
                if i >= n:
                    break
                aa, bb = a, b
                if r >= 0.35 and r < 0.5 and j == 0 and i + 1 < n:
                    pass
                nodes, _ = capsets.text_nodes(rng, f'{tag}.{li}.{i}', p_meta=0.05, p_uni=0.05)
                if rng.random() < 0.2:
                    nodes.insert(0, ['s', True, {'italics': True}])
                    nodes.append(['s', False, {'italics': True}])
                k = rng.random()
                if k < 0.12:
                    nodes.append(['b'])                   # ends with a line break
                elif k < 0.2:
                    nodes.insert(0, ['b'])                # starts with one
                elif k < 0.3:
                    # a caption without visible text
                    nodes = rng.choice([[['t', ' ']], [['b']], [['t', '\u00a0']],
                                        [['s', True, {'italics': True}], ['s', False, {'italics': True}]],
                                        [['t', '']]])
                caps.append({'start': aa, 'end': bb, 'nodes': nodes,
                             'style': rng.choice([None, {'class': 'x'}]), 'layout': None})
                i += 1
            # near-runs: same start different end, or same end different start
            if i < n and rng.random() < 0.25:
                nodes, _ = capsets.text_nodes(rng, f'{tag}.{li}.{i}', p_meta=0.0, p_uni=0.0)
                if rng.random() < 0.5:
                    caps.append({'start': a, 'end': b + rng.choice([1, 1000]), 'nodes': nodes,
                                 'style': None, 'layout': None})
                else:
                    caps.append({'start': max(0, a - rng.choice([1, 1000])) if not float_times else a / 2,
                                 'end': b, 'nodes': nodes, 'style': None, 'layout': None})
                i += 1
            t = t + dur + rng.choice([0, 0, 1, 1000, 2000000])
        spec['langs'].append({'lang': names[li], 'layout': None, 'captions': caps})
    return spec


def cases(ctx):
    rng = ctx.rng('c19')
    for i in range(ctx.budget(12000, 400000)):
        spec = gen_set(rng, f'S{ctx.shard}.{i}')
        build = None
        if len(spec['langs']) > 1 and rng.random() < 0.4:
            # the set is assembled in stages through its public interface, with observer calls in between
            build = {'initial': rng.randrange(0, len(spec['langs'])),
                     'probes': rng.sample(PROBES, rng.randrange(0, 3))}
        if rng.random() < 0.5:
            yield {'op': 'merge', 'set': spec, 'build': build}
        else:
            skew = rng.choice(SKEWS)
            starts = [c['start'] for l in spec['langs'] for c in l['captions']]
            ends = [c['end'] for l in spec['langs'] for c in l['captions']]
            r = rng.random()
            if r < 0.25 or not starts:
                offset = rng.choice([0, 1, 1000, 5 * 10 ** 6, 0.5])
            elif r < 0.5:
                # exactly on / just around a start after skew
                s = rng.choice(starts)
                offset = -(s * skew) + rng.choice([0, 0, 1, -1])
                if isinstance(skew, int) and isinstance(s, int):
                    offset = int(offset)
            elif r < 0.75:
                # inside a caption: start' < 0 <= end'
                k = rng.randrange(len(starts))
                mid = (starts[k] + ends[k]) / 2
                offset = -(mid * skew)
                if isinstance(skew, int) and isinstance(starts[k], int):
                    offset = -((starts[k] + ends[k]) // 2) * skew
            else:
                offset = -(max(ends) * skew) - rng.choice([1, 1000, 10 ** 6])
            yield {'op': 'adjust', 'set': spec, 'skew': skew, 'offset': offset, 'build': build,
                   'omit_defaults': rng.random() < 0.6}


PROBES = ['get_languages', 'is_empty', 'adjust_identity', 'merge_if_merge', 'get_captions', 'write_dfxp']


def build_set(case, ctx):
    """The caption set of the case; with case['build'] it starts with the first k languages, is observed
    through the public interface, and gets the other languages through set_captions()."""
    from pycaption.base import CaptionSet, merge_concurrent_captions
    full = dump.mk_caption_set(case['set'])
    b = case.get('build')
    if not b:
        return full
    langs = [l['lang'] for l in case['set']['langs']]
    cs = CaptionSet({k: full.get_captions(k) for k in langs[:b['initial']]}, layout_info=full.layout_info)
    for p in b['probes']:
        if p == 'get_languages':
            cs.get_languages()
        elif p == 'is_empty':
            cs.is_empty()
        elif p == 'adjust_identity':
            cs.adjust_caption_timing(offset=0, rate_skew=1)
        elif p == 'merge_if_merge' and case['op'] == 'merge':
            merge_concurrent_captions(cs)
        elif p == 'get_captions':
            for k in cs.get_languages():
                cs.get_captions(k)
        elif p == 'write_dfxp' and not cs.is_empty():
            from pycaption import DFXPWriter
            DFXPWriter().write(cs)
    for k in langs[b['initial']:]:
        cs.set_captions(k, full.get_captions(k))
    ctx.count('sets_built_in_stages')
    if b['probes']:
        ctx.count('sets_observed_before_a_language_was_added')
    return cs


def _runs(caps):
    """Maximal runs of consecutive captions with identical (start, end)."""
    runs = []
    for c in caps:
        if runs and (runs[-1][-1]['start'], runs[-1][-1]['end']) == (c['start'], c['end']):
            runs[-1].append(c)
        else:
            runs.append([c])
    return runs


def nontrivial(case):
    langs = case['set']['langs']
    if case['op'] == 'merge':
        for l in langs:
            caps = l['captions']
            if any(len(r) > 1 for r in _runs(caps)):
                return True
            for x, y in zip(caps, caps[1:]):
                if (x['start'] == y['start']) != (x['end'] == y['end']):
                    return True
        return False
    sk, off = Fraction(case['skew']), Fraction(case['offset'])
    for l in langs:
        for c in l['captions']:
            if Fraction(c['start']) * sk + off < 0:
                return True
    return False


def _close(a, b):
    a, b = Fraction(a), Fraction(b)
    return abs(a - b) <= Fraction(1, 1000) + abs(b) * Fraction(1, 10 ** 12)


def check(case, ctx):
    from pycaption.base import merge_concurrent_captions
    spec = case['set']
    for l in spec['langs']:
        for c in l['captions']:
            if not ''.join(n[1] for n in c['nodes'] if n[0] == 't').strip():
                ctx.count('captions_without_visible_text')
            if c['nodes'][-1][0] == 'b':
                ctx.count('captions_ending_with_break')
    cs = build_set(case, ctx)
    fails = []
    if case['op'] == 'adjust':
        sk, off = Fraction(case['skew']), Fraction(case['offset'])
        before = {l['lang']: [(c, dump.caption(c)) for c in cs.get_captions(l['lang'])]
                  for l in spec['langs']}
        # the defaults are part of the interface: offset=0 and rate_skew=1.0 are left out when they are meant
        kw = {}
        if not (case['offset'] == 0 and case.get('omit_defaults')):
            kw['offset'] = case['offset']
        if not (case['skew'] == 1 and case.get('omit_defaults')):
            kw['rate_skew'] = case['skew']
        if len(kw) < 2:
            ctx.count('adjust_calls_relying_on_a_default')
        ret = cs.adjust_caption_timing(**kw)
        ctx.count('adjust_calls')
        if cs.get_languages() != [l['lang'] for l in spec['langs']]:
            fails.append({'what': 'languages changed by adjust_caption_timing', 'got': cs.get_languages()})
            return fails
        dropped = total = 0
        for l in spec['langs']:
            exp = []
            for obj, d in before[l['lang']]:
                total += 1
                ns = Fraction(d['start']) * sk + off
                ne = Fraction(d['end']) * sk + off
                # binary floating point may round a new start that is within a few ulps
                # of zero to either side: both outcomes are accepted there
                ulps = (abs(Fraction(d['start']) * sk) + abs(off)) * Fraction(8, 2 ** 53)
                if ns != 0 and abs(ns) <= ulps:
                    exp.append(('either', d, ns, ne))
                elif ns >= 0:
                    exp.append(('keep', d, ns, ne))
                else:
                    dropped += 1
            got = [dump.caption(c) for c in cs.get_captions(l['lang'])]
            gi = 0
            for kind, d, ns, ne in exp:
                if gi < len(got) and got[gi]['nodes'] == d['nodes'] and _close(got[gi]['start'], ns):
                    g = got[gi]
                    gi += 1
                    if not _close(g['end'], ne):
                        fails.append({'what': 'end is not end*skew+offset', 'expected': float(ne), 'got': g['end']})
                    if g['style'] != d['style'] or g['layout'] != d['layout']:
                        fails.append({'what': 'style/layout of a surviving caption changed'})
                elif kind == 'either':
                    continue
                else:
                    fails.append({'what': 'surviving caption missing, out of order, retimed wrongly or nodes touched',
                                  'lang': l['lang'], 'expected_start': float(ns),
                                  'expected_nodes': d['nodes'],
                                  'got': [(x['start'], x['end']) for x in got]})
                    break
            else:
                if gi != len(got):
                    fails.append({'what': 'caption with negative new start was kept (or extra caption)',
                                  'lang': l['lang'],
                                  'got': [(x['start'], x['end']) for x in got],
                                  'expected_count': gi})
        if dropped:
            ctx.count('adjust_dropped_some')
        if total and dropped == total:
            ctx.count('adjust_dropped_all')
        return fails
    # merge
    before = dump.caption_set(cs)
    ret = merge_concurrent_captions(cs)
    ctx.count('merge_calls')
    after = dump.caption_set(ret)
    if [l['lang'] for l in after['langs']] != [l['lang'] for l in before['langs']]:
        fails.append({'what': 'languages changed by merge'})
        return fails
    for lb, la in zip(before['langs'], after['langs']):
        runs = _runs(lb['captions'])
        for ri, r in enumerate(runs):
            if len(r) > 1:
                ctx.count('merge_runs')
                if ri == 0:
                    ctx.count('merge_run_at_start')
                if ri == len(runs) - 1:
                    ctx.count('merge_run_at_end')
        caps = lb['captions']
        for x, y in zip(caps, caps[1:]):
            if (x['start'] == y['start']) != (x['end'] == y['end']):
                ctx.count('merge_near_runs')
        if len(la['captions']) != len(runs):
            fails.append({'what': 'wrong number of captions after merge', 'lang': lb['lang'],
                          'expected': len(runs), 'got': len(la['captions']),
                          'before': [(c['start'], c['end']) for c in lb['captions']],
                          'after': [(c['start'], c['end']) for c in la['captions']]})
            continue
        for r, g in zip(runs, la['captions']):
            if (g['start'], g['end']) != (r[0]['start'], r[0]['end']):
                fails.append({'what': 'times changed by merge', 'expected': (r[0]['start'], r[0]['end']),
                              'got': (g['start'], g['end'])})
            exp = []
            for k, c in enumerate(r):
                if k:
                    exp.append(['b', None])
                exp.extend(c['nodes'])
            if g['nodes'] != exp:
                fails.append({'what': 'nodes after merge are not the members\' nodes joined by single breaks',
                              'expected': exp, 'got': g['nodes']})
    again = dump.caption_set(merge_concurrent_captions(ret))
    if again != after:
        fails.append({'what': 'merging a second time changed the set'})
    return fails
