"""C16 — roll-up and paint-on SCC text is conserved and ordered."""
from vf.gen import sccprog as G

ID = 'C16'
RULE = ('roll-up (depth 2-4, base rows 15/14/13/12, RU re-sent on every line or only once, 1-8 rows, gaps '
        '0-60 frames) and paint-on (RDC + 1-3 rows per line) streams, single or doubled, drop or non-drop, '
        'starting at timecode 00:00:00:00 or later, with switches between the two modes and to pop-on, rows '
        'of uniquely tagged plain text optionally with special / extended characters (own code tables). '
        'Oracle: characters conserved in order, every row inside one caption, starts non-decreasing, '
        'start < end, end[i] == start[i+1]. One stream in five is read by a reader object used before. Non-trivial: >= 2 rows transmitted.')
ANCHORS = ['pycaption.scc:SCCReader._flush_implicit_buffers',
           'pycaption.scc.specialized_collections:NotifyingDict.set_active',
           'pycaption.scc:SCCReader._translate_command', 'pycaption.scc:SCCReader._roll_up',
           'pycaption.scc.specialized_collections:CaptionCreator.correct_last_timing',
           'pycaption.scc.specialized_collections:TimingCorrectingCaptionList.extend']
THOROUGH_SCALE = 3        # random budgets of the thorough tier are multiplied by this
REQUIRE = {'streams_roll': 50, 'streams_paint': 50, 'mode_switches': 20, 'rows_checked': 500,
           'streams_starting_at_zero': 20, 'depth_2': 5, 'depth_3': 5, 'depth_4': 5, 'chars_conserved': 5000,
           'rows_with_special_or_extended': 20, 'abandoned_pop_on_loads': 10, 'streams_returning_to_an_earlier_mode': 50, 'end_equals_next_start_checked': 500,
           'reads_by_a_reader_object_used_before': 100, 'reads_with_lang_option': 100}


def cases(ctx):
    rng = ctx.rng('c16')
    for _ in range(ctx.budget(9000, 300000)):
        modes = rng.choice([['roll'], ['paint'], ['roll', 'paint'], ['paint', 'roll'], ['roll', 'roll'],
                            ['roll', 'pop'], ['paint', 'pop'], ['roll', 'paint', 'pop'], ['pop', 'roll', 'pop'],
                            ['pop', 'paint', 'pop'], ['roll', 'pop', 'paint'], ['paint', 'roll', 'paint'],
                            ['paint', 'pop', 'paint'], ['roll', 'paint', 'roll'], ['roll', 'pop', 'roll'],
                            ['paint', 'roll', 'paint', 'roll'], ['paint', 'paint']])
        case = {'stream': G.gen_stream(rng, modes=modes, rich=rng.random() < 0.4)}
        if rng.random() < 0.2:
            case['prior_doc'] = G.prior_doc(rng)      # the reader object has read another document before
        if rng.random() < 0.25:
            case['lang'] = rng.choice(['fr', 'en', 'x-y', 'en-US'])     # read(..., lang=)
        yield case


def nontrivial(case):
    n = 0
    for seg in case['stream']['segments']:
        n += len(seg.get('rows', [])) + sum(len(l['rows']) for l in seg.get('lines', []))
    return n >= 2


def _squash(s):
    return ''.join(s.split())


def check(case, ctx):
    from pycaption import SCCReader
    st = case['stream']
    lines, rows = G.encode_stream(st)
    doc = G.scc_doc(lines)
    modes = [s['mode'] for s in st['segments']]
    if 'roll' in modes:
        ctx.count('streams_roll')
    if 'paint' in modes:
        ctx.count('streams_paint')
    if len(modes) > 1:
        ctx.count('mode_switches', len(modes) - 1)
    if any(a == c and a != b for a, b, c in zip(modes, modes[1:], modes[2:])):
        ctx.count('streams_returning_to_an_earlier_mode')
    if st['start_frame'] == 0:
        ctx.count('streams_starting_at_zero')
    ctx.count('abandoned_pop_on_loads', sum(1 for s in st['segments'] if s['mode'] == 'pop'
                                            for c in s['captions'] if c.get('abandoned')))
    for s in st['segments']:
        if s['mode'] == 'roll':
            ctx.count('depth_%d' % s['depth'])
    try:
        kw = {'lang': case['lang']} if case.get('lang') else {}
        if kw:
            ctx.count('reads_with_lang_option')
        cs = G.reader_for(case, ctx).read(doc, **kw)
    except Exception as e:
        return [{'what': 'SCCReader raised on a well-formed roll-up / paint-on stream', 'error': repr(e)[:400],
                 'doc': doc}]
    caps = list(cs.get_captions(case.get('lang') or 'en-US'))
    fails = []
    texts = [c.get_text() for c in caps]
    sent = ''.join(_squash(r) for r in rows)
    got = ''.join(_squash(t) for t in texts)
    cap_modes = [set() for _ in texts]
    ctx.count('chars_conserved', len(sent))
    ctx.count('rows_checked', len(rows))
    ctx.count('rows_with_special_or_extended', sum(1 for r in rows if any(ord(ch) > 127 for ch in r)))
    if sent != got:
        # first difference for the witness
        k = next((i for i, (a, b) in enumerate(zip(sent, got)) if a != b), min(len(sent), len(got)))
        fails.append({'what': 'transmitted characters are not conserved in order across the captions',
                      'sent_around': sent[max(0, k - 15):k + 15], 'got_around': got[max(0, k - 15):k + 15],
                      'sent_len': len(sent), 'got_len': len(got), 'doc': doc})
    else:
        # every transmitted row inside exactly one caption, rows in order
        ci = 0
        pos = 0
        squashed = [_squash(t) for t in texts]
        for r, mode in zip(rows, rows.modes):
            rs = _squash(r)
            while ci < len(squashed) and pos >= len(squashed[ci]):
                ci += 1
                pos = 0
            if ci >= len(squashed) or not squashed[ci].startswith(rs, pos):
                fails.append({'what': 'the text of a transmitted row is split across captions', 'row': r,
                              'captions': texts[:8], 'doc': doc})
                break
            pos += len(rs)
            cap_modes[ci].add(mode)
    for i, c in enumerate(caps):
        if not c.start < c.end:
            fails.append({'what': 'caption without start < end', 'caption': i, 'times': [c.start, c.end], 'doc': doc})
        if i + 1 < len(caps):
            n = caps[i + 1]
            if n.start < c.start:
                fails.append({'what': 'captions not ordered by start', 'caption': i, 'doc': doc})
            # pop-on captions follow C06's rules (an EDM may end them early): the clause is about two
            # neighbouring roll-up / paint-on captions with no pop-on load (even an abandoned one) between
            a, b = cap_modes[i], cap_modes[i + 1]
            both_implicit = (not fails and sent == got and a and b
                             and all(m != 'pop' for m, _ in a | b)
                             and all(modes[k] != 'pop' for k in range(max(s for _, s in a) + 1, min(s for _, s in b))))
            if both_implicit:
                ctx.count('end_equals_next_start_checked')
                if abs(c.end - n.start) > 1e-6:
                    fails.append({'what': 'caption does not end exactly when the next one begins', 'caption': i,
                                  'end': c.end, 'next_start': n.start, 'doc': doc})
    return fails[:4]


def _pop_caption_count(st):
    n = 0
    for seg in st['segments']:
        if seg['mode'] == 'pop':
            for cap in seg['captions']:
                if cap.get('abandoned'):
                    continue
                rows = [r['row'] for r in cap['rows']]
                groups = 1 + sum(1 for a, b in zip(rows, rows[1:]) if b != a + 1)
                n += groups
    return n
