"""Runner, sharding, verdicts, evidence, known findings and replay.

A property module (vf/props/cNN.py) exposes

    ID          'C01'
    TITLE       short text
    LEVEL       'exploration' (default)
    RULE        how cases are generated and what makes one non-trivial
    ANCHORS     ['pycaption.srt:SRTReader._srttomicro', ...]   (reach monitor)
    REQUIRE     {'counter name': minimum}   counters that must be reached, else the
                verdict is INCONCLUSIVE
    def cases(ctx)           -> iterator of JSON-serialisable case dicts
    def check(case, ctx)     -> list of failure dicts ([] = oracle satisfied); a failure
                                 has at least {'what': str}; may call ctx.count/ctx.note
    def nontrivial(case)     -> bool
    def classify(case, failure) -> mechanism name of a known finding, or None

Exit status of a run: 0 held / 1 VIOLATION / 2 INCONCLUSIVE.
"""
import collections
import hashlib
import importlib
import json
import os
import random
import subprocess
import sys
import time
import traceback

from vf import dump

ROOT = os.path.dirname(os.path.dirname(os.path.abspath(__file__)))
REPO = os.environ.get('VERIF_REPO', '/repo')
PY = sys.executable
NCPU = 16


def stable_hash(obj):
    return hashlib.sha1(
        json.dumps(obj, sort_keys=True, default=repr).encode('utf-8', 'surrogatepass')
    ).hexdigest()[:16]


class Inconclusive(Exception):
    pass


class Ctx:
    """What a property module sees while it runs one shard."""

    def __init__(self, pid, tier, seed, shard=0, nshards=1, scale=1.0):
        self.pid = pid
        self.tier = tier
        self.seed = seed
        self.shard = shard
        self.nshards = nshards
        self.scale = scale
        self.counters = collections.Counter()
        self.notes = {}
        self.t0 = time.time()

    # -- randomness: one independent stream per (seed, shard, name)
    def rng(self, name=''):
        return random.Random(f'{self.pid}/{self.seed}/{self.shard}/{name}')

    def budget(self, quick, thorough):
        """Number of random cases for THIS shard."""
        total = quick if self.tier == 'quick' else thorough
        total = int(total * self.scale)
        per = total // self.nshards
        if self.shard < total % self.nshards:
            per += 1
        return per

    def mine(self, index):
        """Static partition of an enumerated space over the shards."""
        return index % self.nshards == self.shard

    def count(self, name, n=1):
        self.counters[name] += n

    def note(self, name, value):
        self.notes[name] = value


def load_known():
    path = os.path.join(ROOT, 'known_findings.json')
    with open(path) as f:
        data = json.load(f)
    return data


def known_mechanisms(pid):
    out = {}
    for e in load_known().get('findings', []):
        if e['property'] == pid and e.get('status') == 'known':
            out[e['mechanism']] = e
    return out


def load_prop(pid):
    return importlib.import_module('vf.props.' + pid.lower())


# --------------------------------------------------------------------------- shard

def run_shard(pid, tier, seed, shard, nshards, scale=1.0, only_case=None):
    """Runs one shard in this process; returns a JSON-serialisable dict."""
    from vf import monitors
    mod = load_prop(pid)
    if tier == 'thorough':
        # the thorough tier of the cheap checks runs proportionally more cases (module attribute)
        scale = scale * getattr(mod, 'THOROUGH_SCALE', 1)
    ctx = Ctx(pid, tier, seed, shard, nshards, scale)
    reach = monitors.ReachMonitor(getattr(mod, 'ANCHORS', []))
    evaluations = 0
    nontrivial = set()
    trivial_seen = 0
    samples = []
    violations = []       # unexplained
    known_hits = collections.Counter()
    known_examples = {}
    errors = []
    deadline = float(os.environ.get('VERIF_DEADLINE', '0')) or None
    timed_out = False
    if hasattr(mod, 'setup'):
        mod.setup(ctx)
    reach.start()
    try:
        it = [only_case] if only_case is not None else mod.cases(ctx)
        for case in it:
            if deadline and time.time() > deadline:
                timed_out = True
                break
            evaluations += 1
            try:
                failures = mod.check(case, ctx)
            except Inconclusive:
                raise
            except Exception:
                failures = [{'what': 'harness-or-library exception escaped the check',
                             'traceback': traceback.format_exc()[-3000:]}]
            if dump.BUILD_CHECKS[0]:
                ctx.count('sets_also_built_in_stages_and_compared', dump.BUILD_CHECKS[0])
                dump.BUILD_CHECKS[0] = 0
            try:
                from vf.props import wcommon
                if wcommon.POSITIONAL[0]:
                    ctx.count('writers_constructed_with_positional_arguments', wcommon.POSITIONAL[0])
                    wcommon.POSITIONAL[0] = 0
            except Exception:
                pass
            if dump.SHARED_SIZES[0]:
                ctx.count('size_objects_shared_inside_a_layout', dump.SHARED_SIZES[0])
                dump.SHARED_SIZES[0] = 0
            if dump.BUILD_PROBLEMS:
                failures = list(failures) + dump.BUILD_PROBLEMS[:2]
                del dump.BUILD_PROBLEMS[:]
            h = stable_hash(case)
            if mod.nontrivial(case):
                nontrivial.add(h)
            else:
                trivial_seen += 1
            if len(samples) < 4 and (mod.nontrivial(case) or evaluations <= 2):
                samples.append(_shorten(case))
            for f in failures:
                mech = None
                try:
                    mech = mod.classify(case, f) if hasattr(mod, 'classify') else None
                except Exception:
                    mech = None
                if mech is not None:
                    known_hits[mech] += 1
                    known_examples.setdefault(mech, {'case': _shorten(case), 'failure': _shorten(f)})
                else:
                    if len(violations) < 25:
                        violations.append({'case': case, 'failure': f, 'hash': h})
                    ctx.count('violations_total')
    except Inconclusive as e:
        errors.append('inconclusive: %s' % e)
    except Exception:
        errors.append('generator crashed: ' + traceback.format_exc()[-3000:])
    finally:
        reach.stop()
    if hasattr(mod, 'teardown'):
        try:
            mod.teardown(ctx)
        except Exception:
            errors.append('teardown: ' + traceback.format_exc()[-2000:])
    return {
        'pid': pid, 'tier': tier, 'seed': seed, 'shard': shard, 'nshards': nshards,
        'evaluations': evaluations,
        'nontrivial': sorted(nontrivial),
        'samples': samples,
        'violations': violations,
        'violations_total': ctx.counters.get('violations_total', 0),
        'known_hits': dict(known_hits),
        'known_examples': known_examples,
        'errors': errors,
        'timed_out': timed_out,
        'counters': dict(ctx.counters),
        'notes': ctx.notes,
        'reach': reach.report(),
        'wall_s': round(time.time() - ctx.t0, 2),
    }


def _shorten(obj, limit=1500):
    s = json.dumps(obj, sort_keys=True, default=repr)
    if len(s) <= limit:
        return obj
    return {'truncated_json': s[:limit] + '...'}


# --------------------------------------------------------------------------- main

def _worker_cmd(pid, tier, seed, shard, nshards, out, scale):
    return [PY, '-B', os.path.join(ROOT, 'bin', 'check'), pid, '--tier', tier,
            '--shard', f'{shard}/{nshards}', '--out', out, '--scale', str(scale)]


def run_check(pid, tier, seed, scale=1.0, jobs=None):
    mod = load_prop(pid)
    t0 = time.time()
    nshards = getattr(mod, 'SHARDS', {}).get(tier, NCPU if tier == 'thorough' else 8)
    if jobs:
        nshards = jobs
    outdir = os.path.join(ROOT, 'out', 'shards')
    os.makedirs(outdir, exist_ok=True)
    os.makedirs(os.path.join(ROOT, 'out', 'replays'), exist_ok=True)
    limit = getattr(mod, 'TIME_LIMIT', {}).get(tier, 900 if tier == 'quick' else 5400)
    limit = float(os.environ.get('VERIF_TIME_LIMIT', limit))
    env = dict(os.environ)
    env['PYTHONHASHSEED'] = env.get('VERIF_HASHSEED', '0')
    env['VERIF_SEED'] = str(seed)
    env['VERIF_DEADLINE'] = str(time.time() + limit)
    env['PYTHONDONTWRITEBYTECODE'] = '1'
    procs = []
    for s in range(nshards):
        out = os.path.join(outdir, f'{pid}-{tier}-{seed}-{s}.json')
        if os.path.exists(out):
            os.remove(out)
        p = subprocess.Popen(_worker_cmd(pid, tier, seed, s, nshards, out, scale),
                             env=env, stdout=subprocess.PIPE, stderr=subprocess.STDOUT,
                             cwd=ROOT)
        procs.append((s, out, p))
    results, lost = [], []
    for s, out, p in procs:
        try:
            so, _ = p.communicate(timeout=max(5.0, limit + 120 - (time.time() - t0)))
        except subprocess.TimeoutExpired:
            p.kill()
            so, _ = p.communicate()
            lost.append(f'shard {s}: watchdog timeout')
            continue
        if p.returncode != 0 or not os.path.exists(out):
            lost.append(f'shard {s}: exit {p.returncode}: {so.decode("utf-8", "replace")[-1500:]}')
            continue
        with open(out) as f:
            results.append(json.load(f))
        os.remove(out)
    return finish(mod, pid, tier, seed, results, lost, time.time() - t0)


def finish(mod, pid, tier, seed, results, lost, wall):
    known = known_mechanisms(pid)
    evaluations = sum(r['evaluations'] for r in results)
    nontrivial = set()
    for r in results:
        nontrivial.update(r['nontrivial'])
    samples = []
    for r in results:
        for s in r['samples']:
            if len(samples) < 5:
                samples.append(s)
    counters = collections.Counter()
    for r in results:
        counters.update(r['counters'])
    notes = {}
    for r in results:
        notes.update(r.get('notes', {}))
    reach = {}
    for r in results:
        for k, v in r['reach'].items():
            e = reach.setdefault(k, {'calls': 0, 'lines_hit': set(), 'lines_total': v['lines_total'],
                                     'lines_all': v.get('lines_all', [])})
            e['calls'] += v['calls']
            e['lines_hit'].update(v['lines_hit'])
    reach_out = {k: {'calls': v['calls'], 'lines_hit': len(v['lines_hit']),
                     'lines_total': v['lines_total'],
                     'lines_never_executed': [ln for ln in v['lines_all'] if ln not in v['lines_hit']]}
                 for k, v in sorted(reach.items())}
    known_hits = collections.Counter()
    known_examples = {}
    for r in results:
        known_hits.update(r['known_hits'])
        for k, v in r['known_examples'].items():
            known_examples.setdefault(k, v)
    violations = []
    for r in results:
        violations.extend(r['violations'])
    # a classifier may only name mechanisms that are listed as known
    unlisted = [m for m in known_hits if m not in known]
    errors = [e for r in results for e in r['errors']]
    timed_out = any(r['timed_out'] for r in results)

    inconclusive = []
    if lost:
        inconclusive.append('lost shards: ' + '; '.join(lost)[:2000])
    if errors:
        inconclusive.append('errors: ' + ' | '.join(errors)[:3000])
    truncated = False
    if timed_out:
        # The wall clock never decides a verdict by itself: a run cut short by its time budget is judged on
        # what it did explore - if every monitor requirement below is met it has held on that; if not, the
        # unmet requirement makes it inconclusive.
        truncated = True
    for name, minimum in getattr(mod, 'REQUIRE', {}).items():
        if isinstance(minimum, dict):
            minimum = minimum.get(tier, 1)
        if counters.get(name, 0) < minimum:
            inconclusive.append(f'monitor counter {name}={counters.get(name, 0)} < {minimum}')
    # Reach of the anchored functions is evidence about the workload, not the oracle: the verdict comes from
    # the boundary monitors (REQUIRE counters above).  A single anchor that is no longer entered - renamed,
    # inlined or bypassed by a restructuring that keeps the property - is reported, not judged; only when most
    # of the anchored code is out of reach does the run say nothing about the property.
    not_entered = [name for name, v in reach_out.items()
                   if v['calls'] == 0 and name not in getattr(mod, 'ANCHORS_OPTIONAL', ())]
    if reach_out and len(not_entered) * 2 > len(reach_out):
        inconclusive.append('most anchored functions never entered: ' + ', '.join(not_entered))
    if len(nontrivial) < 2:
        inconclusive.append('fewer than two distinct non-trivial cases')

    lines = []
    replay_paths = []
    seen_hashes = set()
    for v in violations:
        if v['hash'] in seen_hashes or len(seen_hashes) >= 10:
            continue
        seen_hashes.add(v['hash'])
        path = os.path.join(ROOT, 'out', 'replays', f'{pid}-{v["hash"]}.json')
        with open(path, 'w') as f:
            json.dump({'property': pid, 'seed': seed, 'tier': tier, 'case': v['case'],
                       'failure': v['failure']}, f, indent=1, default=repr)
        replay_paths.append(path)
    for m in unlisted:
        # classifier named something the committed file does not list: treat as violation
        path = os.path.join(ROOT, 'out', 'replays', f'{pid}-unlisted-{m}.json')
        with open(path, 'w') as f:
            json.dump({'property': pid, 'mechanism': m, 'example': known_examples.get(m)}, f,
                      indent=1, default=repr)
        replay_paths.append(path)

    nviol = sum(r['violations_total'] for r in results) + sum(known_hits[m] for m in unlisted)
    if nviol:
        status = 1
    elif inconclusive:
        status = 2
    else:
        status = 0

    coverage = {
        'evaluations': evaluations,
        'distinct_nontrivial': len(nontrivial),
        'rule': getattr(mod, 'RULE', ''),
        'samples': samples,
        'monitor_counters': dict(sorted(counters.items())),
        'anchored_functions_reached': reach_out,
        'known_findings_reproduced': {m: known_hits[m] for m in known_hits if m in known},
        'verdict': {0: 'held on everything explored', 1: 'violated',
                    2: 'inconclusive'}[status],
        'inconclusive_reasons': inconclusive,
        'anchored_functions_not_entered': not_entered,
        'shards': len(results) + len(lost),
        'exhaustive': bool(getattr(mod, 'EXHAUSTIVE', {}).get(tier, False)) and not truncated,
        'truncated_by_time_limit': truncated,
    }
    coverage.update(notes)
    evidence = {
        'property_id': pid,
        'tier': tier,
        'seed': seed,
        'level': getattr(mod, 'LEVEL', 'exploration'),
        'coverage': coverage,
        'assumptions': list(getattr(mod, 'ASSUMPTIONS', [])),
        'wall_s': round(wall, 2),
        'violations': nviol,
    }
    os.makedirs(os.path.join(ROOT, 'evidence'), exist_ok=True)
    epath = os.path.join(ROOT, 'evidence', f'{pid}.json')
    with open(epath, 'w') as f:
        json.dump(evidence, f, indent=1, sort_keys=True, default=repr)
        f.write('\n')
    _validate(evidence)

    print(f'[{pid}] tier={tier} seed={seed} evaluations={evaluations} '
          f'distinct_nontrivial={len(nontrivial)} wall={wall:.1f}s')
    for k, v in sorted(counters.items()):
        print(f'    {k} = {v}')
    for name, v in reach_out.items():
        print(f'    reach {name}: calls={v["calls"]} lines={v["lines_hit"]}/{v["lines_total"]}')
    for name in not_entered:
        print(f'    note: anchored function not entered by this run: {name}')
    for m in sorted(known_hits):
        if m in known:
            print(f'KNOWN-FINDING: property={pid} {m}: {known[m]["description"]} '
                  f'(reproduced {known_hits[m]}x)')
    for m in known:
        if m not in known_hits:
            print(f'    note: known finding {m} was not reproduced by this run')
    if status == 1:
        for v in violations[:5]:
            print('    failure:', json.dumps(v['failure'], default=repr)[:1200])
        for p in replay_paths[:10]:
            print(f'VIOLATION property={pid} replay={p}')
    elif status == 2:
        for r in inconclusive:
            print(f'INCONCLUSIVE property={pid} reason={r}')
    else:
        print(f'HELD property={pid}' + (' (workload cut short by the time budget; judged on what was explored)'
                                        if truncated else ''))
    return status


def _validate(evidence):
    try:
        import jsonschema
        with open('/root/.vp/EVIDENCE.schema.json') as f:
            schema = json.load(f)
        jsonschema.validate(evidence, schema)
    except ImportError:
        pass
    except FileNotFoundError:
        pass
    except Exception as e:        # never let the self-check of the evidence file decide a verdict
        print('    warning: evidence file does not validate against the schema: %s' % str(e)[:300])


def replay(pid, path):
    mod = load_prop(pid)
    with open(path) as f:
        data = json.load(f)
    case = data['case']
    ctx = Ctx(pid, 'quick', data.get('seed', 0))
    if hasattr(mod, 'setup'):
        mod.setup(ctx)
    failures = list(mod.check(case, ctx)) + dump.BUILD_PROBLEMS[:2]
    failures = [f for f in failures
                if not (hasattr(mod, 'classify') and mod.classify(case, f) in known_mechanisms(pid))]
    print(json.dumps({'case': case, 'failures': failures}, indent=1, default=repr)[:6000])
    if failures:
        print(f'VIOLATION property={pid} replay={path}')
        return 1
    print(f'HELD property={pid} (replayed case)')
    return 0
