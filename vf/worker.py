"""Pristine worker: executes read / write jobs in a fresh interpreter (own PYTHONHASHSEED and
environment), every job in its own fork of the freshly imported state, and returns canonical dumps.  Usage: python -B vf/worker.py < jobs.json > results.json
"""
import json
import os
import sys

ROOT = os.path.dirname(os.path.dirname(os.path.abspath(__file__)))
REPO = os.environ.get('VERIF_REPO', '/repo')
sys.path[:0] = [ROOT, REPO]
sys.dont_write_bytecode = True


def _run_one(job):
    import pycaption
    from vf import dump
    from vf.props import wcommon as W
    try:
        if job['op'] == 'read':
            reader = getattr(pycaption, job['reader'])(**job.get('reader_kwargs', {}))
            cs = reader.read(job['doc'], **job.get('read_kwargs', {}))
            return {'ok': dump.caption_set(cs)}
        elif job['op'] == 'write':
            cs = dump.mk_caption_set(job['set'])
            w = W.make_writer(job['writer'], job.get('opts', {}))
            return {'ok': w.write(cs, **job.get('write_kwargs', {}))}
        elif job['op'] == 'default_lang':
            from pycaption.base import DEFAULT_LANGUAGE_CODE
            return {'ok': DEFAULT_LANGUAGE_CODE}
        return {'err': 'unknown op'}
    except Exception as e:
        return {'err': '%s: %s' % (type(e).__name__, str(e)[:300])}


def main():
    import pycaption                      # noqa: F401  (imported once; every job then runs in a fork of this
    from vf import dump                   # noqa: F401   state, so that nothing a job leaves behind in the
    from vf.props import wcommon as W     # noqa: F401   process - class-level caches, default arguments, module
    jobs = json.load(sys.stdin)           #              globals - can reach the next job)
    out = []
    for job in jobs:
        r, w = os.pipe()
        pid = os.fork()
        if pid == 0:
            os.close(r)
            try:
                res = _run_one(job)
                data = json.dumps(res)
            except BaseException as e:     # noqa
                data = json.dumps({'err': 'worker: %r' % (e,)})
            with os.fdopen(w, 'w') as f:
                f.write(data)
            os._exit(0)
        os.close(w)
        with os.fdopen(r) as f:
            data = f.read()
        os.waitpid(pid, 0)
        out.append(json.loads(data) if data else {'err': 'worker: job process died'})
    json.dump(out, sys.stdout)


SEED_POOL = ['1', '2', '3', '4', '5', '6', '7', '11', '101', '777', '4242', '12345', '99991', '31337', '65537', '271828']


def seeds_for(case, k):
    """k distinct PYTHONHASHSEED values for the pristine children of this case, derived from the case itself
    (so a replay uses the same ones); over many cases the whole pool is used - an order that depends on the
    hash of one particular string shows only under some seeds."""
    import hashlib
    h = int(hashlib.md5(json.dumps(case, sort_keys=True, default=str).encode()).hexdigest(), 16)
    out = []
    while len(out) < k:
        s = SEED_POOL[h % len(SEED_POOL)]
        h //= len(SEED_POOL)
        if s not in out:
            out.append(s)
    return out


def run_jobs(jobs, hashseed='0', env_extra=None, timeout=300):
    """Called from the checks: runs the jobs in a pristine child."""
    import subprocess
    env = {k: v for k, v in os.environ.items() if k != 'PYCAPTION_DEFAULT_LANG'}
    env['PYTHONHASHSEED'] = str(hashseed)
    env['PYTHONDONTWRITEBYTECODE'] = '1'
    if env_extra:
        env.update(env_extra)
    p = subprocess.run([sys.executable, '-B', os.path.abspath(__file__)], input=json.dumps(jobs).encode(),
                       stdout=subprocess.PIPE, stderr=subprocess.PIPE, env=env, timeout=timeout)
    if p.returncode != 0:
        raise RuntimeError('pristine worker failed: ' + p.stderr.decode('utf-8', 'replace')[-800:])
    return json.loads(p.stdout.decode())


if __name__ == '__main__':
    main()
