#!/bin/bash
# tools/revert_fixes.sh [out.tsv] — "a fixed entry suppresses nothing": for every `fixed` record of known_findings.json the
# fix commit is reverted in a scratch worktree of /repo HEAD and the quick check of each property it is
# recorded for must report the violation again.  Line: <commit> <property> <exit code> <VIOLATION lines>
OUT=${1:-/verif/out/revert_fixes.tsv}; WT=/tmp/revfix
HEAD=$(git -C /repo rev-parse HEAD)
git -C /repo worktree remove --force $WT 2>/dev/null; rm -rf $WT
git -C /repo worktree add -q --detach $WT $HEAD || exit 9
: > $OUT
python3 - <<'PY' > /tmp/revfix.list
import json
k=json.load(open('/verif/known_findings.json'))
seen={}
for x in k['findings']:
    if x['status']=='fixed':
        seen.setdefault(x['commit'],[]).append(x['property'])
for c,ps in seen.items(): print(c, ' '.join(sorted(set(ps))))
PY
while read c props; do
  git -C $WT reset -q --hard $HEAD; git -C $WT clean -qfd pycaption
  if ! git -C /repo diff $c^ $c -- pycaption | git -C $WT apply -R 2>/dev/null; then
    git -C $WT reset -q --hard $HEAD
    # a later fix touched the same lines: fall back to a hand-made reversal kept under tools/reverts/
    if [ -f /verif/tools/reverts/$c.diff ] && git -C $WT apply /verif/tools/reverts/$c.diff 2>/dev/null; then :; else echo "$c REVERT-DOES-NOT-APPLY" >> $OUT; continue; fi
  fi
  for p in $props; do
    o=$(VERIF_REPO=$WT /verif/bin/check $p --tier quick 2>&1); rc=$?
    echo "$c $p $rc $(echo "$o" | grep -c '^VIOLATION')" >> $OUT
  done
done < /tmp/revfix.list
git -C /repo worktree remove --force $WT; rm -f /tmp/revfix.list
cat $OUT
