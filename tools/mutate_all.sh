#!/bin/bash
# tools/mutate_all.sh <slots> <Cxx>...  — tools/mutate.py over the given properties, <slots> parallel sandboxes per property
SLOTS=$1; shift
for p in "$@"; do
  rm -f /verif/out/mut-$p.tsv
  for s in $(seq 0 $((SLOTS-1))); do /verif/tools/mutate.py run $p $s $SLOTS /verif/out/mut-$p.tsv & done
  wait
  echo "$p done: $(awk -F'\t' '{print $5 $6}' /verif/out/mut-$p.tsv | sort | uniq -c | tr '\n' ' ')"
done
git -C /repo worktree prune
