#!/venv/bin/python
"""tools/mutate.py — first-order mutants of the functions a property is anchored in.

    tools/mutate.py list  <Cxx>                 number of mutants per anchored function
    tools/mutate.py run   <Cxx> <slot> <nslots> <out.tsv> [--max-per-function N]

For the property's ANCHORS (vf/props/cNN.py) every mutant of a small operator set is generated with `ast`
(comparison and arithmetic operators swapped, and/or swapped, a condition negated, small integer constants
+-1, True/False flipped, a simple statement deleted, `return x` -> `return None`).  `run` works in its own
scratch worktree of /repo HEAD and its own copy of /verif under /tmp (so parallel slots never share shard
files): the mutated module is written, the repository's test-suite is run; if it still passes ("the change
compiles and passes the existing tests") the property's quick check is run against the worktree.
One line per mutant:  <Cxx> <function> <line> <operator> <tests: pass|fail> <check exit code or ->
A mutant the tests pass and the check does not report (exit 0) is a *survivor*: an equivalent mutant, a change
outside the property's domain, or a blind spot of the workload - to be read by hand.
"""
import ast
import copy
import importlib
import os
import subprocess
import sys

ROOT = os.path.dirname(os.path.dirname(os.path.abspath(__file__)))
sys.path.insert(0, ROOT)
sys.path.insert(0, '/repo')

CMP = {ast.Lt: ast.LtE, ast.LtE: ast.Lt, ast.Gt: ast.GtE, ast.GtE: ast.Gt, ast.Eq: ast.NotEq, ast.NotEq: ast.Eq,
       ast.In: ast.NotIn, ast.NotIn: ast.In, ast.Is: ast.IsNot, ast.IsNot: ast.Is}
BIN = {ast.Add: ast.Sub, ast.Sub: ast.Add, ast.Mult: ast.FloorDiv, ast.Div: ast.Mult, ast.FloorDiv: ast.Div,
       ast.Mod: ast.FloorDiv}


def anchored_functions(pid):
    from vf.monitors import resolve
    mod = importlib.import_module('vf.props.c%s' % pid[1:])
    out = []
    for spec in mod.ANCHORS:
        try:
            fn = resolve(spec)
            code = fn.__code__
        except Exception:
            continue
        out.append((spec, code.co_filename, code.co_firstlineno, fn.__name__))
    return out


def find_function(tree, lineno, name):
    for node in ast.walk(tree):
        if isinstance(node, (ast.FunctionDef, ast.AsyncFunctionDef)) and node.name == name:
            first = min([node.lineno] + [d.lineno for d in node.decorator_list])
            if first == lineno or node.lineno == lineno:
                return node
    return None


def mutation_points(fn):
    """[(path description, operator name, apply(node_in_copy))] - computed on node identity order."""
    points = []
    nodes = list(ast.walk(fn))
    for idx, node in enumerate(nodes):
        ln = getattr(node, 'lineno', 0)
        if isinstance(node, ast.Compare):
            for k, op in enumerate(node.ops):
                if type(op) in CMP:
                    points.append((idx, ln, 'cmp:%s->%s' % (type(op).__name__, CMP[type(op)].__name__),
                                   lambda n, k=k: n.ops.__setitem__(k, CMP[type(n.ops[k])]())))
        elif isinstance(node, ast.BinOp) and type(node.op) in BIN:
            if isinstance(node.op, ast.Mod) and isinstance(node.left, ast.Constant) and isinstance(node.left.value, str):
                continue      # string formatting
            points.append((idx, ln, 'bin:%s->%s' % (type(node.op).__name__, BIN[type(node.op)].__name__),
                           lambda n: setattr(n, 'op', BIN[type(n.op)]())))
        elif isinstance(node, ast.BoolOp):
            points.append((idx, ln, 'bool:%s' % type(node.op).__name__,
                           lambda n: setattr(n, 'op', ast.Or() if isinstance(n.op, ast.And) else ast.And())))
        elif isinstance(node, (ast.If, ast.While, ast.IfExp)):
            points.append((idx, ln, 'negate-condition',
                           lambda n: setattr(n, 'test', ast.UnaryOp(op=ast.Not(), operand=n.test))))
        elif isinstance(node, ast.Constant):
            v = node.value
            if isinstance(v, bool):
                points.append((idx, ln, 'const:%r->%r' % (v, not v), lambda n: setattr(n, 'value', not n.value)))
            elif isinstance(v, int) and abs(v) <= 100000:
                points.append((idx, ln, 'const:%r+1' % v, lambda n: setattr(n, 'value', n.value + 1)))
                if v != 0:
                    points.append((idx, ln, 'const:%r-1' % v, lambda n: setattr(n, 'value', n.value - 1)))
            elif isinstance(v, float):
                points.append((idx, ln, 'const:%r*1.01' % v, lambda n: setattr(n, 'value', n.value * 1.01 if n.value else 1.0)))
        elif isinstance(node, ast.Return) and node.value is not None and not (
                isinstance(node.value, ast.Constant) and node.value.value is None):
            points.append((idx, ln, 'return-none', lambda n: setattr(n, 'value', ast.Constant(value=None))))
        elif isinstance(node, (ast.Assign, ast.AugAssign, ast.Expr)) and not (
                isinstance(node, ast.Expr) and isinstance(node.value, ast.Constant)):
            points.append((idx, ln, 'delete-statement', 'DELETE'))
    return points


def make_mutant(src, lineno, name, point_index):
    tree = ast.parse(src)
    fn = find_function(tree, lineno, name)
    pts = mutation_points(fn)
    idx, ln, opname, action = pts[point_index]
    target = list(ast.walk(fn))[idx]
    if action == 'DELETE':
        # replace the statement by `pass` in whichever body holds it
        for parent in ast.walk(fn):
            for field in ('body', 'orelse', 'finalbody'):
                body = getattr(parent, field, None)
                if isinstance(body, list) and target in body:
                    body[body.index(target)] = ast.Pass()
    else:
        action(target)
    ast.fix_missing_locations(tree)
    return ast.unparse(tree) + '\n', ln, opname


def list_points(pid):
    total = 0
    for spec, fname, lineno, name in anchored_functions(pid):
        src = open(fname).read()
        fn = find_function(ast.parse(src), lineno, name)
        n = len(mutation_points(fn)) if fn else 0
        total += n
        print(f'{pid} {spec} {n}')
    print(f'{pid} total {total}')


def run(pid, slot, nslots, out, max_per_fn):
    head = subprocess.check_output(['git', '-C', '/repo', 'rev-parse', 'HEAD'], text=True).strip()
    pre = os.environ.get('MUT_PREFIX', '')
    wt = f'/tmp/mutwt-{pre}{slot}'
    vcopy = f'/tmp/mutv-{pre}{slot}'
    subprocess.call(['git', '-C', '/repo', 'worktree', 'remove', '--force', wt], stderr=subprocess.DEVNULL)
    subprocess.call(['rm', '-rf', wt, vcopy])
    subprocess.check_call(['git', '-C', '/repo', 'worktree', 'add', '-q', '--detach', wt, head])
    os.makedirs(vcopy)
    subprocess.check_call(['rsync', '-a', '--exclude', '.git', '--exclude', 'out', '--exclude', 'evidence',
                           '--exclude', 'seeded', '--exclude', 'benign', ROOT + '/', vcopy + '/'])
    jobs = []
    for spec, fname, lineno, name in anchored_functions(pid):
        src = open(fname).read()
        fn = find_function(ast.parse(src), lineno, name)
        if fn is None:
            continue
        n = len(mutation_points(fn))
        picks = list(range(n))
        if max_per_fn and n > max_per_fn:
            step = n / max_per_fn
            picks = sorted({int(i * step) for i in range(max_per_fn)})
        for k in picks:
            jobs.append((spec, fname, lineno, name, k))
    env = dict(os.environ, VERIF_REPO=wt, PYTHONDONTWRITEBYTECODE='1')
    with open(out, 'a') as f:
        for j, (spec, fname, lineno, name, k) in enumerate(jobs):
            if j % nslots != slot:
                continue
            rel = os.path.relpath(fname, '/repo')
            src = open(fname).read()
            try:
                mutated, ln, opname = make_mutant(src, lineno, name, k)
            except Exception as e:
                f.write(f'{pid}\t{spec}\t-\tmutation-failed:{type(e).__name__}\t-\t-\n')
                continue
            open(os.path.join(wt, rel), 'w').write(mutated)
            t = subprocess.run(['/venv/bin/python', '-m', 'pytest', '-q', '-p', 'no:cacheprovider',
                                '--timeout=120', '--continue-on-collection-errors'], cwd=wt,
                               stdout=subprocess.PIPE, stderr=subprocess.STDOUT, text=True, env=env)
            passed = '217 passed' in t.stdout
            rc = '-'
            if passed:
                c = subprocess.run([os.path.join(vcopy, 'bin', 'check'), pid, '--tier', 'quick', '--jobs', '4'],
                                   stdout=subprocess.PIPE, stderr=subprocess.STDOUT, text=True, env=env)
                rc = str(c.returncode)
            f.write(f'{pid}\t{spec}\t{ln}\t{opname}\t{"pass" if passed else "fail"}\t{rc}\n')
            f.flush()
            subprocess.check_call(['git', '-C', wt, 'checkout', '-q', '--', '.'])
    subprocess.call(['git', '-C', '/repo', 'worktree', 'remove', '--force', wt])
    subprocess.call(['rm', '-rf', vcopy])


if __name__ == '__main__':
    cmd = sys.argv[1]
    if cmd == 'list':
        list_points(sys.argv[2])
    elif cmd == 'run':
        mp = 0
        if '--max-per-function' in sys.argv:
            mp = int(sys.argv[sys.argv.index('--max-per-function') + 1])
        run(sys.argv[2], int(sys.argv[3]), int(sys.argv[4]), sys.argv[5], mp)
