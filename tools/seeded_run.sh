#!/bin/bash
# tools/seeded_run.sh <seeded id> <check id>...  — apply the seeded change to /repo, run the quick checks, undo it.
S=/verif/seeded/$1; shift
[ -z "$(git -C /repo status --porcelain -- pycaption)" ] || { echo "/repo not clean"; exit 9; }
trap 'git -C /repo checkout -- . ' EXIT
git -C /repo apply $S/patch.diff || exit 9
for id in "$@"; do
  out=$(/verif/bin/check $id --tier ${TIER:-quick} 2>&1); rc=$?
  echo "$(basename $S) $id exit=$rc $(echo "$out" | grep -c '^VIOLATION') violation-lines"
done
