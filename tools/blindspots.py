#!/venv/bin/python
"""tools/blindspots.py — lines of the anchored functions that the last run of each check never executed
(read from evidence/*.json), with their source text.  A line listed here is a path the monitors of that
property have not observed: either an error path outside the property's domain or an input class to add."""
import glob
import importlib
import json
import linecache
import os
import sys

ROOT = os.path.dirname(os.path.dirname(os.path.abspath(__file__)))
sys.path.insert(0, ROOT)
sys.path.insert(0, os.environ.get('VERIF_REPO', '/repo'))
from vf.monitors import resolve    # noqa

for path in sorted(glob.glob(os.path.join(ROOT, 'evidence', 'C*.json'))):
    e = json.load(open(path))
    reach = e['coverage'].get('anchored_functions_reached', {})
    for spec, v in sorted(reach.items()):
        missed = v.get('lines_never_executed') or []
        if not missed:
            continue
        try:
            fn = resolve(spec)
            fname = fn.__code__.co_filename
        except Exception:
            fname = None
        print(f"{e['property_id']} {spec}  {v['lines_hit']}/{v['lines_total']}")
        for ln in missed:
            src = linecache.getline(fname, ln).rstrip() if fname else ''
            print(f'    {ln}: {src}')
