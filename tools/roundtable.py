#!/usr/bin/env python3
"""tools/roundtable.py <first suffix> <second suffix> <matrix.tsv>...  — the caught-by table of one round for DESIGN.md.
Mechanism = first line of each change's notes.md; caught by = checks that exit 1 in any of the given matrices
(a later matrix re-runs changes after a strengthening).  Also writes detected_by into each meta.json."""
import collections
import glob
import json
import os
import re
import sys

a, b = sys.argv[1], sys.argv[2]
hits = collections.defaultdict(set)
for path in sys.argv[3:]:
    for line in open(path):
        f = line.split()
        if len(f) == 4 and f[2] == '1':
            hits[f[0]].add(f[1])


def mech(mid):
    p = f'/verif/seeded/{mid}/notes.md'
    if not os.path.exists(p):
        return '?'
    first = open(p).read().strip().split('\n')[0]
    first = re.sub(r'^#+\s*', '', first)
    first = re.sub(r'^(C\d\d\s*[/ ]\s*)?(round \d+\s*/\s*)?m\d+\s*[-—:]+\s*', '', first)
    first = re.sub(r'\s*\(`?pycaption/[^)]*\)\s*$', '', first)
    return first.replace('|', '/')


print('| change | what was changed | caught by |')
print('|---|---|---|')
for n in range(1, 21):
    pid = 'C%02d' % n
    row = []
    for suf in (a, b):
        mid = f'{pid}-{suf}'
        d = f'/verif/seeded/{mid}'
        if not os.path.isdir(d):
            continue
        got = sorted(hits.get(mid, ()))
        meta = json.load(open(d + '/meta.json'))
        meta['detected_by'] = {c: 'quick check exits 1 with the change applied (matrix run)' for c in got}
        json.dump(meta, open(d + '/meta.json', 'w'), indent=1)
        row.append((mid, mech(mid), ' '.join(got) or '-'))
    if row:
        print('| %s | %s | %s |' % (' / '.join(r[0].split('-')[1] if i else r[0] for i, r in enumerate(row)),
                                   '; '.join(r[1] for r in row), ' / '.join(r[2] for r in row)))
