#!/bin/bash
# tools/matrix.sh <out.tsv> <slots> <seeded id>...
#   The caught-by matrix: every given seeded change x all 20 quick checks, run in <slots> parallel
#   sandboxes.  Each slot has its own scratch worktree of /repo (synced to /repo HEAD) and its own
#   copy of /verif under /tmp, so nothing here touches /repo, /verif/evidence or /verif/out.
#   SRC=<dir> takes the patches from <dir>/<id>/patch.diff instead of /verif/seeded (e.g. /verif/benign).
#   Line format: <seeded id> <check> <exit code> <number of VIOLATION lines>
OUT=$1; SLOTS=$2; shift 2
HEAD=$(git -C /repo rev-parse HEAD)
Q=$(mktemp -d /tmp/mxq.XXXX)
for s in "$@"; do echo $s; done > $Q/queue
: > $OUT
slot() {
  n=$1
  V=/tmp/mxv-$n; R=/tmp/mxr-$n
  rm -rf $V; mkdir -p $V
  rsync -a --exclude .git --exclude out --exclude evidence /verif/ $V/
  git -C /repo worktree remove --force $R 2>/dev/null; rm -rf $R
  git -C /repo worktree add -q --detach $R $HEAD || return
  while :; do
    s=$( flock $Q/lock sh -c "head -1 $Q/queue; sed -i 1d $Q/queue" )
    [ -z "$s" ] && break
    git -C $R checkout -q -- . ; git -C $R apply ${SRC:-/verif/seeded}/$s/patch.diff || { echo "$s APPLY-FAILED" >> $OUT; continue; }
    for c in C01 C02 C03 C04 C05 C06 C07 C08 C09 C10 C11 C12 C13 C14 C15 C16 C17 C18 C19 C20; do
      o=$(VERIF_REPO=$R $V/bin/check $c --tier quick --jobs ${JOBS:-4} 2>&1); rc=$?
      echo "$s $c $rc $(echo "$o" | grep -c '^VIOLATION')" >> $OUT
    done
    git -C $R checkout -q -- .
  done
  git -C /repo worktree remove --force $R; rm -rf $V
}
for n in $(seq 1 $SLOTS); do slot $n & done
wait
git -C /repo worktree prune
rm -rf $Q
echo matrix-done >> $OUT
