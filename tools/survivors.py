#!/venv/bin/python
"""tools/survivors.py <Cxx>... — mutants of tools/mutate.py that pass the tests and that the check did not report, with their source line."""
import linecache, sys, os
sys.path.insert(0, os.path.dirname(os.path.dirname(os.path.abspath(__file__)))); sys.path.insert(0, '/repo')
from vf.monitors import resolve
for pid in sys.argv[1:]:
    for l in open(f'/verif/out/mut-{pid}.tsv'):
        f = l.rstrip('\n').split('\t')
        if len(f) == 6 and f[4] == 'pass' and f[5] != '1':
            fn = resolve(f[1]); fname = fn.__code__.co_filename
            print(f'{pid} rc={f[5]} {f[1].split(":")[1]}:{f[2]} [{f[3]}]  {linecache.getline(fname, int(f[2])).strip()[:110]}')
