#!/bin/bash
# tools/regress_benign.sh <out.tsv> <slots>   — every benign (property-preserving) change against the check of its own property the checks named in CHECKS and EXTRA other checks picked per change (default: own only); every run must exit 0 unless meta.json alarms records a correct cross-detection
#   (meta.json detected_by; for the early rounds that is the check of its own property).  Scratch worktrees and
#   copies of /verif under /tmp, as in tools/matrix.sh.  Line: <seeded id> <check> <exit code> <VIOLATION lines>
OUT=$1; SLOTS=$2
HEAD=$(git -C /repo rev-parse HEAD)
Q=$(mktemp -d /tmp/rbq.XXXX)
python3 - > $Q/queue <<'PY'
import json,glob,os
for d in sorted(glob.glob('/verif/benign/C*-b*')):
    m=json.load(open(d+'/meta.json'))
    own=os.path.basename(d)[:3]
    import hashlib, random
    r=random.Random(hashlib.md5(os.path.basename(d).encode()).hexdigest())
    others=[c for c in ['C%02d'%i for i in range(1,21)] if c!=own]
    extra=r.sample(others,int(os.environ.get('EXTRA','0')))
    checks=sorted(set([own]+extra+os.environ.get('CHECKS','').split()))
    if checks: print(os.path.basename(d), ' '.join(checks))
PY
: > $OUT
slot() {
  n=$1
  V=/tmp/rbv-$n; R=/tmp/rbr-$n
  rm -rf $V; mkdir -p $V
  rsync -a --exclude .git --exclude out --exclude evidence --exclude seeded --exclude benign /verif/ $V/
  git -C /repo worktree remove --force $R 2>/dev/null; rm -rf $R
  git -C /repo worktree add -q --detach $R $HEAD || return
  while :; do
    line=$( flock $Q/lock sh -c "head -1 $Q/queue; sed -i 1d $Q/queue" )
    [ -z "$line" ] && break
    set -- $line; s=$1; shift
    git -C $R checkout -q -- . ; git -C $R clean -qfd pycaption
    if ! git -C $R apply /verif/benign/$s/patch.diff 2>/dev/null; then
      if ! git -C $R apply -3 /verif/benign/$s/patch.diff 2>/dev/null; then git -C $R reset -q --hard $HEAD; echo "$s APPLY-FAILED" >> $OUT; continue; fi
      git -C $R reset -q
    fi
    for c in "$@"; do
      o=$(VERIF_REPO=$R $V/bin/check $c --tier quick --jobs ${JOBS:-4} 2>&1); rc=$?
      echo "$s $c $rc $(echo "$o" | grep -c '^VIOLATION')" >> $OUT
    done
    git -C $R reset -q --hard $HEAD
  done
  git -C /repo worktree remove --force $R; rm -rf $V
}
for n in $(seq 1 $SLOTS); do slot $n & done
wait
git -C /repo worktree prune
rm -rf $Q
echo regress-done >> $OUT
