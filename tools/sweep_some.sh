#!/bin/bash
# tools/sweep_some.sh <tier> <seed> <check ids...>  — like sweep.sh for a subset of the checks
TIER=$1; s=$2; shift 2
for id in "$@"; do
  t0=$(date +%s.%N); out=$(VERIF_SEED=$s $(dirname $0)/../bin/check $id --tier $TIER 2>&1); rc=$?; t1=$(date +%s.%N)
  printf "%s seed=%s tier=%s exit=%s %.1fs %s\n" $id $s $TIER $rc $(echo "$t1 - $t0" | bc) "$(echo "$out" | grep -E '^(VIOLATION|INCONCLUSIVE)' | head -2 | tr '\n' ' ' | cut -c1-300)"
done
