#!/bin/bash
# tools/sweep.sh <tier> <seeds...>  — every check, every seed; prints one line per run
TIER=$1; shift
for s in "$@"; do for id in C01 C02 C03 C04 C05 C06 C07 C08 C09 C10 C11 C12 C13 C14 C15 C16 C17 C18 C19 C20; do
  t0=$(date +%s.%N); out=$(VERIF_SEED=$s $(dirname $0)/../bin/check $id --tier $TIER 2>&1); rc=$?; t1=$(date +%s.%N)
  printf "%s seed=%s tier=%s exit=%s %.1fs %s\n" $id $s $TIER $rc $(echo "$t1 - $t0" | bc) "$(echo "$out" | grep -E '^(VIOLATION|INCONCLUSIVE)' | head -2 | tr '\n' ' ' | cut -c1-300)"
done; done
