#!/usr/bin/env python3
"""Regenerates MANIFEST.json from vf/props/*.py (only modules that exist are claimed)."""
import json, os, re, importlib, sys
ROOT = os.path.dirname(os.path.dirname(os.path.abspath(__file__)))
sys.path[:0] = [ROOT]
props = [json.loads(l) for l in open(os.path.join(ROOT, 'properties.jsonl'))]
META = json.load(open(os.path.join(ROOT, 'tools', 'manifest_meta.json')))
checks, na = [], []
for p in props:
    pid = p['id']
    path = os.path.join(ROOT, 'vf', 'props', pid.lower() + '.py')
    m = META.get(pid, {})
    if os.path.exists(path) and not m.get('disabled'):
        checks.append({
            'property_id': pid,
            'quick_cmd': f'bin/check {pid} --tier quick',
            'thorough_cmd': f'bin/check {pid} --tier thorough',
            'evidence_file': f'evidence/{pid}.json',
            'replay_cmd_template': f'bin/check {pid} --replay {{path}}',
            'engine': 'vf',
            'level_claimed': {'category': 'exploration', 'text': m['level_text'],
                              'design_ref': f'DESIGN.md section 4, {pid}'},
            'level_note': m['level_note'],
            'technique': m['technique'],
        })
    else:
        na.append({'property_id': pid, 'reason': m.get('na_reason', 'check not built yet in this round (work in progress; the technique applies, see DESIGN.md section 4)')})
manifest = {
    'version': 1,
    'setup_cmd': "/venv/bin/python -m pip install -q --no-index --find-links /opt/veriftools/wheels --target .deps icontract jsonschema",
    'hooks': {
        'guard': 'PYCAPTION_VERIF',
        'enable': 'no source hooks: monitors are attached from the harness (sys.monitoring, wrappers); bin/check sets PYCAPTION_VERIF=1 for itself only',
        'baseline_off_cmd': 'cd /repo && env -u PYCAPTION_VERIF /venv/bin/python -m pytest -ra -q -p no:cacheprovider --timeout=900 --continue-on-collection-errors',
        'source_commits': [],
        'add_only': True,
    },
    'engines': [{'name': 'vf', 'path': 'vf/', 'serves_properties': [c['property_id'] for c in checks],
                 'kind_free_text': 'runtime monitoring: generated hostile workloads driven through the real readers/writers, boundary recorders, independent reference oracles, history/metamorphic monitors, sys.monitoring reach monitors and failpoints'}],
    'checks': checks,
    'notes': 'Exit codes: 0 held on everything explored, 1 VIOLATION, 2 INCONCLUSIVE (monitor not reached / shard lost). Known findings are in known_findings.json.',
    'not_applicable': na,
}
json.dump(manifest, open(os.path.join(ROOT, 'MANIFEST.json'), 'w'), indent=1)
print(len(checks), 'checks;', len(na), 'not claimed')
