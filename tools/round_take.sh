#!/bin/bash
# tools/round_take.sh <Cxx> <worktree prefix> <name of m1> <name of m2> <round> <theme>
#   confirm both changes of one sub-agent, record round / theme, and run the check of their own property
P=$1; PRE=$2; A=$3; B=$4; ROUND=$5; THEME=$6
for pair in m1:$A m2:$B; do
  src=${pair%%:*}; name=${pair##*:}
  /verif/tools/seeded_confirm.sh $P $src $PRE $P-$name 2>&1 | grep -v WARNING
  python3 - "$P-$name" "$ROUND" "$THEME" <<'PY'
import json,sys
d='/verif/seeded/'+sys.argv[1]+'/meta.json'
m=json.load(open(d)); m['round']=int(sys.argv[2]); m['theme']=sys.argv[3]; json.dump(m,open(d,'w'),indent=1)
PY
  r=$(/verif/tools/trymut /tmp/mutx /verif/seeded/$P-$name/patch.diff $P 2>&1 | grep -c '^VIOLATION')
  echo "$P-$name own-check violations=$r"
done
