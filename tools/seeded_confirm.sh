#!/bin/bash
# tools/seeded_confirm.sh <Cxx> <mN>   — confirm a sub-agent's change in its scratch worktree and keep it under seeded/
P=$1; M=$2; WT=/tmp/${3:-mut}-$P; SRC=$WT/MUTANT/$M; NAME=${4:-$P-$M}; DST=/verif/seeded/$NAME
HEAD=$(git -C /repo rev-parse HEAD)
git -C $WT checkout -q -- pycaption 2>/dev/null; git -C $WT checkout -q --detach $HEAD || exit 9
if ! git -C $WT apply $SRC/patch.diff 2>/dev/null; then
  if ! git -C $WT apply -3 $SRC/patch.diff 2>/dev/null; then echo "$P-$M: PATCH DOES NOT APPLY"; git -C $WT checkout -q -- pycaption; exit 1; fi
  git -C $WT reset -q
fi
T=$(cd $WT && /venv/bin/python -m pytest -q -p no:cacheprovider --timeout=900 --continue-on-collection-errors 2>&1 | tail -1)
(cd $WT && PYTHONPATH=$WT timeout 300 /venv/bin/python -B $SRC/demo.py >/tmp/demo_with.txt 2>&1); RC_WITH=$?
mkdir -p $DST; git -C $WT diff -- pycaption > $DST/patch.diff
git -C $WT checkout -q -- pycaption
(cd $WT && PYTHONPATH=$WT timeout 300 /venv/bin/python -B $SRC/demo.py >/tmp/demo_without.txt 2>&1); RC_WITHOUT=$?
cp $SRC/demo.py $DST/demo.py; cp $SRC/notes.md $DST/notes.md 2>/dev/null
echo "$NAME: tests=[$T] demo_with_change=$RC_WITH demo_without=$RC_WITHOUT"
python3 - "$P" "$NAME" "$T" "$RC_WITH" "$RC_WITHOUT" "$HEAD" <<'PY'
import json,sys
p,name,t,rw,rwo,head=sys.argv[1:7]
dst=f'/verif/seeded/{name}'
ok = '217 passed' in t and rw=='1' and rwo=='0'
notes=open(dst+'/notes.md').read() if __import__('os').path.exists(dst+'/notes.md') else ''
meta={'id':name,'breaks_property':p,'source':'independent sub-agent given only the property text and a scratch worktree',
 'needs_to_manifest':notes.strip()[:1500],
 'confirmed':{'repo_head':head,'tests_with_change':t,'demo_exit_with_change':int(rw),'demo_exit_without_change':int(rwo),'ok':ok},
 'ran':['git apply patch.diff in a scratch worktree synced to /repo HEAD','pytest (baseline command) with the change','demo.py with the change (must exit 1)','git checkout -- pycaption','demo.py without the change (must exit 0)']}
json.dump(meta,open(dst+'/meta.json','w'),indent=1)
PY
