#!/bin/bash
# tools/benign_confirm.sh <Cxx> <bN> [wtprefix]  — confirm a sub-agent's property-PRESERVING change in its scratch
# worktree (applies to /repo HEAD, suite passes, demo runs) and keep it under benign/<Cxx>-<bN>/
P=$1; B=$2; WT=/tmp/${3:-ben}-$P; SRC=$WT/BENIGN/$B; NAME=${4:-$P-$B}; DST=/verif/benign/$NAME
HEAD=$(git -C /repo rev-parse HEAD)
git -C $WT checkout -q -- pycaption 2>/dev/null; git -C $WT checkout -q --detach $HEAD || exit 9
if ! git -C $WT apply $SRC/patch.diff 2>/dev/null; then echo "$NAME: PATCH DOES NOT APPLY"; git -C $WT checkout -q -- pycaption; exit 1; fi
T=$(cd $WT && /venv/bin/python -m pytest -q -p no:cacheprovider --timeout=900 --continue-on-collection-errors 2>&1 | tail -1)
(cd $WT && PYTHONPATH=$WT timeout 300 /venv/bin/python -B $SRC/demo.py >/tmp/bdemo_with.txt 2>&1); RC_WITH=$?
mkdir -p $DST; git -C $WT diff -- pycaption > $DST/patch.diff
git -C $WT checkout -q -- pycaption
(cd $WT && PYTHONPATH=$WT timeout 300 /venv/bin/python -B $SRC/demo.py >/tmp/bdemo_without.txt 2>&1); RC_WITHOUT=$?
cp $SRC/demo.py $DST/demo.py; cp $SRC/notes.md $DST/notes.md 2>/dev/null
echo "$NAME: tests=[$T] demo_with_change=$RC_WITH ($(tail -1 /tmp/bdemo_with.txt | cut -c1-40)) demo_without=$RC_WITHOUT ($(tail -1 /tmp/bdemo_without.txt | cut -c1-40))"
python3 - "$P" "$NAME" "$T" "$RC_WITH" "$RC_WITHOUT" "$HEAD" <<'PY'
import json,sys,os
p,name,t,rw,rwo,head=sys.argv[1:7]
dst=f'/verif/benign/{name}'
notes=open(dst+'/notes.md').read() if os.path.exists(dst+'/notes.md') else ''
meta={'id':name,'preserves_property':p,'source':'independent sub-agent given only the property text and a scratch worktree, asked for a real change that keeps the property',
 'argument':notes.strip()[:1500],
 'confirmed':{'repo_head':head,'tests_with_change':t,'demo_exit_with_change':int(rw),'demo_exit_without_change':int(rwo),'ok':'217 passed' in t and rw=='0'}}
json.dump(meta,open(dst+'/meta.json','w'),indent=1)
PY
